#!/usr/bin/env python3
"""Validate MANIFEST.json and evidence files against the task schemas (uses the tooling venv: python3-vt)."""
import glob, json, os, sys
import jsonschema
HERE = os.path.dirname(os.path.abspath(__file__))
m = json.load(open(HERE + '/MANIFEST.json'))
jsonschema.validate(m, json.load(open('/root/.vp/MANIFEST.schema.json')))
es = json.load(open('/root/.vp/EVIDENCE.schema.json'))
props = [json.loads(l)['id'] for l in open(HERE + '/properties.jsonl') if l.strip()]
claimed = [c['property_id'] for c in m['checks']]
na = [n['property_id'] for n in m.get('not_applicable', [])]
missing = [p for p in props if p not in claimed and p not in na]
both = [p for p in props if p in claimed and p in na]
print('claimed', len(claimed), 'not_applicable', len(na), 'unlisted', missing, 'both', both)
for f in sorted(glob.glob(HERE + '/evidence/*.json')):
    e = json.load(open(f))
    jsonschema.validate(e, es)
    print(f, 'ok', e['tier'], e['coverage'].get('evaluations'), e['coverage'].get('distinct_nontrivial'), e['wall_s'], 'violations', e.get('violations'))
sys.exit(1 if missing or both else 0)
