#!/usr/bin/env python3
"""Evaluate seeded changes without touching /repo (development aid).

usage: tools_seed_iso.py <seeded-id> [<seeded-id> ...] [--seeds 1,2,3] [--tier quick] [--check C09,C17]

For each id: a scratch worktree of /repo (HEAD) with seeded/<id>/patch.diff
applied, and a scratch copy of the committed /verif whose harness go.mod (and the
C05 generated module) point at that worktree; runs ./vcheck <property> <tier>
there at the given VERIF_SEED values and prints whether a VIOLATION was raised.
Both scratch trees are removed afterwards. /repo's working tree is never
modified, so this can run beside other checks.
"""
import json, os, shutil, subprocess, sys, tempfile

VERIF, REPO = "/verif", "/repo"


def sh(cmd, cwd=None, env=None, timeout=7200):
    p = subprocess.run(cmd, cwd=cwd, shell=True, env=env, capture_output=True, text=True, timeout=timeout)
    return p.returncode, p.stdout + p.stderr


def evaluate(sid, seeds=(1,), tier="quick", checks=None):
    """Returns a list of {seed, exit, classes} per check run, or a string on failure."""
    d = os.path.join(VERIF, "seeded", sid)
    prop = json.load(open(os.path.join(d, "meta.json")))["property"]
    base = tempfile.mkdtemp(prefix="seediso-")
    repo, verif = os.path.join(base, "repo"), os.path.join(base, "verif")
    try:
        rc, out = sh("git worktree add -q --detach %s HEAD" % repo, REPO)
        assert rc == 0, out
        rc, out = sh("git apply %s" % os.path.join(d, "patch.diff"), repo)
        if rc != 0:
            return "patch does not apply: " + out[-200:]
        # the working tree of /verif (not only HEAD): what is being developed
        sh("rsync -a --exclude .git --exclude found --exclude scratch %s/ %s/" % (VERIF, verif))
        for f in ["harness/go.mod", "harness/c05gen/c05_test.go", "harness/c18idl/fuzz_test.go", "harness/c07total/c07_test.go"]:
            p = os.path.join(verif, f)
            s = open(p).read().replace("=> /repo", "=> " + repo).replace('"/repo/', '"' + repo + '/')
            open(p, "w").write(s)
        hits = []
        for c in (checks or [prop]):
            for s in seeds:
                env = dict(os.environ, VERIF_SEED=str(s), VERIF_REPO=repo)
                p = subprocess.run(["./vcheck", c, tier], cwd=verif, env=env, capture_output=True, text=True, timeout=7200)
                lines = [l for l in p.stdout.splitlines() if "violation class=" in l]
                cls = [l.split("violation class=")[1].split(" ")[0] for l in lines]
                hits.append({"check": c, "seed": s, "exit": p.returncode, "classes": cls[:3], "lines": [l[:300] for l in lines[:3]]})
        return hits
    finally:
        sh("git worktree remove --force %s" % repo, REPO)
        shutil.rmtree(base, ignore_errors=True)


def main():
    args = sys.argv[1:]
    seeds, tier, ids, checks = [1], "quick", [], None
    while args:
        a = args.pop(0)
        if a == "--seeds":
            seeds = [int(x) for x in args.pop(0).split(",")]
        elif a == "--tier":
            tier = args.pop(0)
        elif a == "--check":
            checks = args.pop(0).split(",")
        else:
            ids.append(a)
    for sid in ids:
        hits = evaluate(sid, seeds, tier, checks)
        if isinstance(hits, str):
            print(sid, hits, flush=True)
        else:
            print(sid, json.dumps([{k: h[k] for k in ("check", "seed", "exit", "classes")} for h in hits]), flush=True)
    return 0


if __name__ == "__main__":
    sys.exit(main())
