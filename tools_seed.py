#!/usr/bin/env python3
"""Evaluate one seeded change (development aid, not a registered check).

usage: tools_seed.py <seed-dir> <seeded-id> [check ids...]

<seed-dir> holds patch.diff, demo_test.go and meta.json as produced by a
sub-agent in its own worktree. The tool
  1. confirms in a scratch worktree of /repo (under /tmp, removed afterwards)
     that with the patch the project builds, the existing suite passes and the
     demonstration fails, and that without the patch the demonstration passes;
  2. applies the patch to /repo, runs the quick checks of the property (and any
     extra check ids given), records which ones raise a VIOLATION, and undoes
     the patch (git -C /repo checkout -- .);
  3. stores patch.diff, the demonstration and meta.json (with what was run and
     the outcome) under /verif/seeded/<seeded-id>/.
"""
import json
import os
import shutil
import subprocess
import sys
import tempfile

REPO = "/repo"
VERIF = "/verif"
ENV = dict(os.environ, GOFLAGS="-mod=readonly", GOPROXY="off", GOSUMDB="off", GOTOOLCHAIN="local")


def sh(cmd, cwd, timeout=900):
    p = subprocess.run(cmd, cwd=cwd, shell=True, env=ENV, capture_output=True, text=True, timeout=timeout)
    return p.returncode, (p.stdout + p.stderr)


def main():
    seed_dir, sid = sys.argv[1], sys.argv[2]
    meta = json.load(open(os.path.join(seed_dir, "meta.json")))
    prop = meta["property"]
    checks = [prop] + [a for a in sys.argv[3:] if not a.startswith("--")]
    patch = os.path.abspath(os.path.join(seed_dir, "patch.diff"))
    demo = os.path.join(seed_dir, "demo_test.go")
    result = {"confirmed": False}
    # already confirmed earlier: only re-run the detection step
    prev_path = os.path.join(VERIF, "seeded", sid, "meta.json")
    if os.path.exists(prev_path) and "--verify" not in sys.argv:
        prev = json.load(open(prev_path))
        if prev.get("verification", {}).get("confirmed"):
            return detect_and_store(seed_dir, sid, meta, prev["verification"], checks, patch, demo)
    wt = tempfile.mkdtemp(prefix="seedverify-")
    os.rmdir(wt)
    rc, out = sh("git worktree add -q --detach %s HEAD" % wt, REPO)
    if rc != 0:
        print("cannot create worktree", out)
        return 2
    try:
        demo_dir = os.path.join(wt, meta["demo_dir"])
        os.makedirs(demo_dir, exist_ok=True)
        demo_dst = os.path.join(demo_dir, "zz_seed_demo_test.go")
        shutil.copy(demo, demo_dst)
        demo_cmd = meta["demo_cmd"]
        # clean tree: demo passes
        rc_clean, out_clean = sh(demo_cmd, wt)
        if rc_clean != 0:  # flaky demos get a second chance
            rc_clean, out_clean = sh(demo_cmd, wt)
        result["demo_passes_on_clean_tree"] = rc_clean == 0
        # with the patch
        rc, out = sh("git apply %s" % patch, wt)
        result["patch_applies"] = rc == 0
        if rc != 0:
            result["error"] = out[-2000:]
        else:
            rc_b, out_b = sh("go build ./...", wt)
            result["builds"] = rc_b == 0
            os.remove(demo_dst)
            rc_t, out_t = sh("go test -vet=off -count=1 -timeout 600s ./...", wt, timeout=1200)
            # known flaky tests of the repository itself (a timing test in examples/clock,
            # a fixed TCP port in bus/net when several suites run at once): run again
            for _ in range(2):
                if rc_t == 0:
                    break
                rc_t, out_t = sh("go test -vet=off -count=1 -timeout 600s ./...", wt, timeout=1200)
            result["suite_passes"] = rc_t == 0
            if rc_t != 0:
                result["suite_output"] = "\n".join(l for l in out_t.splitlines() if "FAIL" in l or "panic" in l)[:2000]
            shutil.copy(demo, demo_dst)
            fails = 0
            for _ in range(3):
                rc_d, out_d = sh(demo_cmd, wt)
                if rc_d != 0:
                    fails += 1
            result["demo_fails_with_patch"] = "%d/3" % fails
            result["confirmed"] = bool(result["demo_passes_on_clean_tree"] and result["builds"] and result["suite_passes"] and fails >= 1)
    finally:
        sh("git worktree remove --force %s" % wt, REPO)
        shutil.rmtree(wt, ignore_errors=True)
    return detect_and_store(seed_dir, sid, meta, result, checks, patch, demo)


def detect_and_store(seed_dir, sid, meta, result, checks, patch, demo):
    detection = {}
    if result["confirmed"] and "--iso" in sys.argv:
        # detection in scratch copies: /repo is not touched (see tools_seed_iso.py)
        dst = os.path.join(VERIF, "seeded", sid)
        os.makedirs(dst, exist_ok=True)
        if os.path.abspath(os.path.dirname(patch)) != os.path.abspath(dst):
            shutil.copy(patch, os.path.join(dst, "patch.diff"))
            shutil.copy(demo, os.path.join(dst, "demo_test.go"))
        meta["verification"] = result
        json.dump(meta, open(os.path.join(dst, "meta.json"), "w"), indent=1)
        import tools_seed_iso
        hits = tools_seed_iso.evaluate(sid, seeds=(1,), tier="quick", checks=checks)
        if isinstance(hits, str):
            print(hits)
            return 2
        for h in hits:
            detection[h["check"]] = {"exit": h["exit"], "detected": h["exit"] == 1, "lines": h["lines"]}
        meta["checks_run"] = detection
        meta["what_was_run"] = "scratch worktree: git apply, go build ./..., go test ./... (suite), demo x3 with patch, demo on clean tree; detection: the same patch applied to a second scratch worktree of /repo and ./vcheck <id> quick run from a scratch copy of /verif pointing at it (tools_seed_iso.py)"
        json.dump(meta, open(os.path.join(dst, "meta.json"), "w"), indent=1)
        print(json.dumps({"id": sid, "confirmed": True, "verification": result, "detection": {k: v["detected"] for k, v in detection.items()}}, indent=1))
        return 0
    if result["confirmed"]:
        rc, out = sh("git status --porcelain", REPO)
        if out.strip():
            print("/repo is not clean, refusing to apply", out)
            return 2
        rc, out = sh("git apply %s" % patch, REPO)
        if rc != 0:
            print("patch does not apply to the current /repo tree (rebase it on the fix commits):", out)
            return 2
        try:
            for c in checks:
                p = subprocess.run([os.path.join(VERIF, "vcheck"), c, "quick"], cwd=VERIF, capture_output=True, text=True, timeout=3600)
                lines = [l for l in p.stdout.splitlines() if l.startswith("VIOLATION") or "violation class=" in l]
                detection[c] = {"exit": p.returncode, "detected": p.returncode == 1, "lines": lines[:6]}
        finally:
            sh("git checkout -- .", REPO)
            rc, out = sh("git status --porcelain", REPO)
            if out.strip():
                print("WARNING: /repo not clean after undo:", out)
    dst = os.path.join(VERIF, "seeded", sid)
    os.makedirs(dst, exist_ok=True)
    shutil.copy(patch, os.path.join(dst, "patch.diff"))
    shutil.copy(demo, os.path.join(dst, "demo_test.go"))
    meta["verification"] = result
    meta["checks_run"] = detection
    meta["what_was_run"] = "scratch worktree: git apply, go build ./..., go test ./... (suite), demo x3 with patch, demo on clean tree; then git -C /repo apply, ./vcheck <id> quick for each listed check, git -C /repo checkout -- ."
    json.dump(meta, open(os.path.join(dst, "meta.json"), "w"), indent=1)
    print(json.dumps({"id": sid, "confirmed": result["confirmed"], "verification": result, "detection": {k: v["detected"] for k, v in detection.items()}}, indent=1))
    return 0


if __name__ == "__main__":
    sys.exit(main())
