// Package c17handlers decides C17: each connection handler is closed exactly
// once, whatever races with it.
package c17handlers

import (
	"encoding/json"
	"fmt"
	"io"
	"log"
	"runtime"
	"strings"
	"sync"
	"sync/atomic"
	"testing"
	"time"

	qnet "github.com/lugu/qiloop/bus/net"
	"pgregory.net/rapid"
	"verif/harness/hio"
	"verif/harness/vt"
)

const prop = "C17"

func TestMain(m *testing.M) {
	vt.Watchdog = 45 * time.Second
	log.SetOutput(io.Discard)
	vt.Main(m)
}

// Op is one step of a script.
type Op struct {
	Kind   string `json:"kind"`             // mk | mkfull | rm | rmbad | inject | injectcall | close | peerclose
	Filter string `json:"filter,omitempty"` // mk: all | none | once | action | onceaction
	Action uint32 `json:"action,omitempty"` // mk(action filters) / inject
	Target int    `json:"target,omitempty"` // rm: index into the handlers created so far, or -1 / 9999 for unknown ids
	Closer bool   `json:"closer,omitempty"` // mk: register a close callback
	// Fail (mkconsumer: a handler registered through AddHandler, i.e. a callback
	// behind the library's own queue): the callback reports an error for every message
	Fail bool `json:"fail,omitempty"`
}

// Case is a sequential script, or (Workers > 0) a concurrent workload.
type Case struct {
	Ops     []Op   `json:"ops"`
	Workers [][]Op `json:"workers,omitempty"`
	CloseAt int    `json:"close_at,omitempty"` // concurrent: shutdown after this many feeder frames
	ByPeer  bool   `json:"by_peer,omitempty"`
	// CloseErr: the stream's Close reports an error (the connection was already
	// torn down underneath): handlers must be closed all the same
	CloseErr bool `json:"close_err,omitempty"`
	// LazyClose: closing the stream does not wake the endpoint's pending Read
	// (pipe:// and user supplied streams behave so)
	LazyClose bool `json:"lazy_close,omitempty"`
	// WritesFail: whatever the endpoint writes fails, while it still reads
	// (the peer stopped reading): it matters when the endpoint answers by
	// itself, as it does to a call it cannot queue
	WritesFail bool `json:"writes_fail,omitempty"`
}

func genOp(t *rapid.T, allowShutdown bool) Op {
	kinds := []string{"mk", "mk", "mk", "rm", "rm", "rm", "rmbad", "inject", "inject", "inject", "inject", "mkfull", "injectcall", "injectcall", "mkconsumer"}
	if allowShutdown {
		kinds = append(kinds, "close", "peerclose")
	}
	op := Op{Kind: rapid.SampledFrom(kinds).Draw(t, "op")}
	switch op.Kind {
	case "mk":
		op.Filter = rapid.SampledFrom([]string{"all", "none", "once", "action", "onceaction", "leave", "leaveaction"}).Draw(t, "filter")
		op.Action = uint32(rapid.IntRange(1, 3).Draw(t, "faction"))
		op.Closer = rapid.IntRange(0, 4).Draw(t, "closer") > 0
	case "rm":
		op.Target = rapid.IntRange(0, 20).Draw(t, "target") // index (modulo) into the handlers created so far
	case "rmbad":
		op.Target = rapid.SampledFrom([]int{-1, 9999, 10, 11, 1 << 30, -1 << 31}).Draw(t, "badid")
	case "inject", "injectcall":
		op.Action = uint32(rapid.IntRange(1, 3).Draw(t, "action"))
	case "mkfull":
		// a consumer with room for one message which nobody reads
		op.Filter = "all"
		op.Closer = true
	case "mkconsumer":
		op.Filter = rapid.SampledFrom([]string{"all", "all", "action", "once", "leaveaction"}).Draw(t, "cfilter")
		op.Action = uint32(rapid.IntRange(1, 3).Draw(t, "caction"))
		op.Closer = true
		op.Fail = rapid.Bool().Draw(t, "fail")
	}
	return op
}

func genSequential(t *rapid.T) Case {
	n := rapid.IntRange(3, 40).Draw(t, "n")
	var c Case
	c.CloseErr = rapid.IntRange(0, 3).Draw(t, "closeerr") == 0
	c.LazyClose = rapid.IntRange(0, 3).Draw(t, "lazyclose") == 0
	c.WritesFail = rapid.IntRange(0, 3).Draw(t, "writesfail") == 0
	if rapid.IntRange(0, 5).Draw(t, "grow") == 0 {
		// the handler table grows beyond its initial ten slots, most of the
		// early handlers are removed again, a late one stays: then the rest of a
		// script, or the shutdown at once
		k := rapid.IntRange(11, 15).Draw(t, "grown")
		for i := 0; i < k; i++ {
			c.Ops = append(c.Ops, Op{Kind: "mk", Filter: rapid.SampledFrom([]string{"all", "none", "action"}).Draw(t, "gfilter"), Action: uint32(rapid.IntRange(1, 3).Draw(t, "gaction")), Closer: true})
		}
		m := rapid.IntRange(8, k-1).Draw(t, "shrunk")
		for i := 0; i < m; i++ {
			c.Ops = append(c.Ops, Op{Kind: "rm", Target: i})
		}
		if rapid.Bool().Draw(t, "growclose") {
			c.Ops = append(c.Ops, Op{Kind: "inject", Action: 1}, Op{Kind: rapid.SampledFrom([]string{"close", "peerclose"}).Draw(t, "growend")})
			return c
		}
	}
	for i := 0; i < n; i++ {
		op := genOp(t, i > 8)
		c.Ops = append(c.Ops, op)
		if op.Kind == "close" || op.Kind == "peerclose" {
			// a few operations after shutdown
			m := rapid.IntRange(0, 3).Draw(t, "after")
			for j := 0; j < m; j++ {
				c.Ops = append(c.Ops, genOp(t, true))
			}
			break
		}
	}
	return c
}

func genConcurrent(t *rapid.T) Case {
	var c Case
	w := rapid.IntRange(2, 4).Draw(t, "workers")
	for i := 0; i < w; i++ {
		n := rapid.IntRange(3, 25).Draw(t, "n")
		var ops []Op
		for j := 0; j < n; j++ {
			ops = append(ops, genOp(t, false))
		}
		c.Workers = append(c.Workers, ops)
	}
	c.CloseAt = rapid.IntRange(0, 40).Draw(t, "closeat")
	c.ByPeer = rapid.Bool().Draw(t, "bypeer")
	c.CloseErr = rapid.IntRange(0, 3).Draw(t, "closeerr") == 0
	c.LazyClose = rapid.IntRange(0, 3).Draw(t, "lazyclose") == 0
	return c
}

// handler is the harness side of one registered handler.
type handler struct {
	id        int
	filter    string
	action    uint32
	hasCloser bool
	consumer  bool // registered through AddHandler: the callback records, the queue is the library's
	failing   bool // the callback reports an error for every message
	full      bool          // room for one message, never read: what it receives is not judged
	release   chan struct{} // closed when the reader may start (at once, or for a full handler when its close callback ran)
	relOnce   sync.Once
	queue     chan *qnet.Message
	closerN   int32
	closerAt  int64
	closedAt  int64 // when the reader saw the queue closed
	received  []uint32
	afterMsg  int32 // messages delivered after the closer ran
	// deliveredAtCloser: messages delivered (read or still queued) when the
	// close callback finished; -1 before
	deliveredAtCloser int
	mu                sync.Mutex
	done              chan struct{}
	expected          []uint32 // model: ids of the messages it must receive
	live              bool     // model
	tracked           bool     // model: registered before shutdown
	regDone           int64    // logical time MakeHandler returned
}

var clock int64

func tick() int64 { return atomic.AddInt64(&clock, 1) }

func (h *handler) filterFn() qnet.Filter {
	return func(hdr *qnet.Header) (bool, bool) {
		switch h.filter {
		case "all":
			return true, true
		case "none":
			return false, true
		case "once":
			return true, false
		case "action":
			return hdr.Action == h.action, true
		case "leave":
			// takes nothing and leaves at the first message it is asked about
			return false, false
		case "leaveaction":
			// takes nothing, leaves when it sees its action
			return false, hdr.Action != h.action
		default: // onceaction
			return hdr.Action == h.action, hdr.Action != h.action
		}
	}
}

// model of the filter: (matched, keep)
func (h *handler) match(action uint32) (bool, bool) {
	hdr := qnet.Header{Action: action}
	return h.filterFn()(&hdr)
}

func newHandler(op Op) *handler {
	h := &handler{filter: op.Filter, action: op.Action, hasCloser: op.Closer, queue: make(chan *qnet.Message, 512), done: make(chan struct{}), deliveredAtCloser: -1, release: make(chan struct{})}
	if op.Kind == "mkconsumer" {
		// no queue of its own: the close callback is all that can be observed
		h.consumer, h.failing, h.hasCloser = true, op.Fail, true
		return h
	}
	if op.Kind == "mkfull" {
		// nobody reads this queue until its close callback has run
		h.full, h.hasCloser, h.filter = true, true, "all"
		h.queue = make(chan *qnet.Message, 1)
	} else {
		close(h.release)
	}
	// The reader takes a message off the queue and records it under h.mu in one
	// step (a non-blocking receive, polled), so that the close callback can
	// count exactly what had been delivered when it ran: what the reader has
	// recorded plus what still waits in the queue. A message beyond that count
	// was delivered after the callback; one merely read later was not.
	go func() {
		<-h.release
		for {
			h.mu.Lock()
			select {
			case m, ok := <-h.queue:
				if !ok {
					h.mu.Unlock()
					atomic.StoreInt64(&h.closedAt, tick())
					close(h.done)
					return
				}
				h.received = append(h.received, m.Header.ID)
				if h.deliveredAtCloser >= 0 && len(h.received) > h.deliveredAtCloser {
					atomic.AddInt32(&h.afterMsg, 1)
				}
				h.mu.Unlock()
			default:
				h.mu.Unlock()
				time.Sleep(20 * time.Microsecond)
			}
		}
	}()
	return h
}

func (h *handler) closer() qnet.Closer {
	if !h.hasCloser {
		return nil
	}
	return func(err error) {
		// if the queue had been closed before this callback, the reader
		// goroutine gets the time to notice it first
		time.Sleep(300 * time.Microsecond)
		atomic.StoreInt64(&h.closerAt, tick())
		h.mu.Lock()
		if h.deliveredAtCloser < 0 {
			h.deliveredAtCloser = len(h.received) + len(h.queue)
		}
		h.mu.Unlock()
		if atomic.AddInt32(&h.closerN, 1) == 1 && h.consumer {
			atomic.StoreInt64(&h.closedAt, tick())
			close(h.done)
		}
		if h.full {
			h.relOnce.Do(func() { close(h.release) })
		}
	}
}

func (h *handler) consumerFn() qnet.Consumer {
	return func(m *qnet.Message) error {
		h.mu.Lock()
		h.received = append(h.received, m.Header.ID)
		h.mu.Unlock()
		if h.failing {
			return fmt.Errorf("harness: the consumer does not like message %d", m.Header.ID)
		}
		return nil
	}
}

func waitDone(h *handler, d time.Duration) bool {
	select {
	case <-h.done:
		return true
	case <-time.After(d):
		return false
	}
}

func frame(id, action uint32) []byte { return frameOf(qnet.Event, id, action) }

func frameOf(typ uint8, id, action uint32) []byte {
	m := qnet.NewMessage(qnet.NewHeader(typ, 1, 1, action, id), []byte{1, 2, 3})
	w := &hio.RecWriter{}
	m.Write(w)
	return w.Bytes()
}

const wait = 10 * time.Second

// checkClosed verifies the exactly-once clauses for a handler that the model
// says is closed.
func checkClosed(h *handler, why string) error {
	if !waitDone(h, wait) {
		return vt.Violationf("C17:queue-not-closed", "handler %d (%s): queue still open %v after %s", h.id, h.filter, wait, why)
	}
	if h.hasCloser {
		// the callback runs before the queue is closed, so once the queue is
		// closed it has run
		if n := atomic.LoadInt32(&h.closerN); n != 1 {
			return vt.Violationf("C17:closer-count", "handler %d (%s): close callback invoked %d times after %s", h.id, h.filter, n, why)
		}
		if atomic.LoadInt64(&h.closerAt) > atomic.LoadInt64(&h.closedAt) {
			return vt.Violationf("C17:closer-after-queue-close", "handler %d (%s): queue was closed before the close callback ran (%s)", h.id, h.filter, why)
		}
	}
	if atomic.LoadInt32(&h.afterMsg) != 0 {
		return vt.Violationf("C17:message-after-close", "handler %d: received %d messages after its close callback", h.id, h.afterMsg)
	}
	return nil
}

func sameIDs(a, b []uint32) bool {
	if len(a) != len(b) {
		return false
	}
	for i := range a {
		if a[i] != b[i] {
			return false
		}
	}
	return true
}

func checkSequential(c Case) (err error) {
	vt.Journal(prop, "TestSequential", "C17:process-died", c)
	defer vt.JournalDone(prop, "TestSequential")
	defer func() {
		if p := recover(); p != nil {
			err = vt.Violationf("C17:panic", "panic: %v", p)
		}
	}()
	s := hio.NewScriptStream(nil)
	s.CloseErr = c.CloseErr
	s.WritesFail = c.WritesFail
	s.LazyClose = c.LazyClose
	defer s.Release()
	e := qnet.NewEndPoint(s)
	var hs []*handler
	live := map[int]*handler{} // model: id -> handler
	shutdown := false
	var msgID uint32
	removals, onceMatches, shutdownWithLive := 0, 0, 0
	defer func() {
		e.Close()
	}()
	for i, op := range c.Ops {
		switch op.Kind {
		case "mk", "mkfull", "mkconsumer":
			h := newHandler(op)
			if h.consumer {
				h.id = e.AddHandler(h.filterFn(), h.consumerFn(), h.closer())
				vt.Label("handler-registered-through-AddHandler")
			} else {
				h.id = e.MakeHandler(h.filterFn(), h.queue, h.closer())
			}
			h.regDone = tick()
			hs = append(hs, h)
			if shutdown {
				// registered after shutdown: outside the property (the endpoint
				// never learns about it); only at-most-once is required
				continue
			}
			if _, dup := live[h.id]; dup {
				return vt.Violationf("C17:id-reuse", "step %d: MakeHandler returned id %d which is still live", i, h.id)
			}
			h.live = true
			h.tracked = true
			live[h.id] = h
		case "rm", "rmbad":
			id := op.Target
			if op.Kind == "rm" {
				if len(hs) == 0 {
					continue
				}
				id = hs[op.Target%len(hs)].id
			}
			h, isLive := live[id]
			err := e.RemoveHandler(id)
			if shutdown {
				// shutdown may still be in progress (a peer close is processed
				// asynchronously) and handlers registered after it are unknown to
				// the model: results are not judged, only the final counts are
				continue
			}
			if isLive && !shutdown {
				if err != nil {
					return vt.Violationf("C17:remove-live-error", "step %d: RemoveHandler(%d) of a live handler failed: %v", i, id, err)
				}
				h.live = false
				delete(live, id)
				removals++
				if err := checkClosed(h, "RemoveHandler"); err != nil {
					return err
				}
			} else if err == nil && !(shutdown && isLive) {
				return vt.Violationf("C17:remove-unknown-accepted", "step %d: RemoveHandler(%d) of an unknown or already removed handler returned no error", i, id)
			}
		case "inject", "injectcall":
			if shutdown {
				continue
			}
			msgID++
			var closedNow []*handler
			// model: handlers are visited in slot order
			for id := 0; id < 4096; id++ {
				h, ok := live[id]
				if !ok {
					continue
				}
				matched, keep := h.match(op.Action)
				if matched && !h.full {
					h.expected = append(h.expected, msgID)
				}
				if !keep {
					h.live = false
					delete(live, id)
					onceMatches++
					closedNow = append(closedNow, h)
				}
			}
			if op.Kind == "injectcall" {
				// a call which a full consumer cannot take is answered by the
				// endpoint itself with an error frame
				s.Feed(frameOf(qnet.Call, msgID, op.Action))
			} else {
				s.Feed(frame(msgID, op.Action))
			}
			if !s.WaitIdle(wait) {
				return vt.Violationf("C17:dispatch-stuck", "step %d: the endpoint did not finish dispatching a frame within %v", i, wait)
			}
			for _, h := range closedNow {
				if err := checkClosed(h, "non-keep filter match"); err != nil {
					return err
				}
			}
		case "close", "peerclose":
			if shutdown {
				continue
			}
			if len(live) >= 2 {
				shutdownWithLive++
			}
			shutdown = true
			if op.Kind == "close" {
				e.Close()
			} else {
				s.PeerClose()
			}
		}
		// invariant after every step: what each closed handler received is
		// exactly what the model selected; live handlers are not closed
		for _, h := range hs {
			if h.live && !shutdown {
				select {
				case <-h.done:
					return vt.Violationf("C17:closed-while-live", "step %d: handler %d (%s) was closed although it is registered", i, h.id, h.filter)
				default:
				}
				if n := atomic.LoadInt32(&h.closerN); n != 0 {
					return vt.Violationf("C17:closer-while-live", "step %d: close callback of live handler %d ran", i, h.id)
				}
			}
		}
	}
	// quiescence: every handler the model closed, and after shutdown every
	// handler registered before it, must be closed exactly once
	for _, h := range hs {
		if !h.tracked {
			continue // registered after shutdown: only "at most once", checked below
		}
		if h.live && !shutdown {
			continue
		}
		if err := checkClosed(h, "shutdown/removal"); err != nil {
			return err
		}
		if h.consumer {
			// the callbacks of what was queued when the handler left are still made
			for deadline := time.Now().Add(wait); time.Now().Before(deadline); time.Sleep(50 * time.Microsecond) {
				h.mu.Lock()
				n := len(h.received)
				h.mu.Unlock()
				if n >= len(h.expected) {
					break
				}
			}
		}
		h.mu.Lock()
		got := append([]uint32{}, h.received...)
		h.mu.Unlock()
		if !h.full && !sameIDs(got, h.expected) {
			return vt.Violationf("C17:wrong-messages", "handler %d (%s action %d) received %v, its filter selects %v", h.id, h.filter, h.action, got, h.expected)
		}
	}
	// a second close callback may still arrive late: give it a moment
	time.Sleep(2 * time.Millisecond)
	for _, h := range hs {
		if n := atomic.LoadInt32(&h.closerN); n > 1 {
			return vt.Violationf("C17:closer-count", "handler %d: close callback invoked %d times", h.id, n)
		}
	}
	nontrivial := removals > 0 && onceMatches > 0 && shutdownWithLive > 0
	labels := []string{"mode=sequential"}
	if removals > 0 {
		labels = append(labels, "has-removal")
	}
	if onceMatches > 0 {
		labels = append(labels, "has-nonkeep-match")
	}
	if shutdown {
		labels = append(labels, "has-shutdown")
	}
	if shutdownWithLive > 0 {
		labels = append(labels, "shutdown-with>=2-live")
	}
	key, _ := json.Marshal(c)
	vt.Case(nontrivial, string(key), labels...)
	if nontrivial {
		vt.Sample("script", c.Ops)
	}
	return nil
}

func stuckOnHandlersMutex() string {
	buf := make([]byte, 1<<20)
	n := runtime.Stack(buf, true)
	out := ""
	for _, g := range strings.Split(string(buf[:n]), "\n\n") {
		if strings.Contains(g, "sync.(*Mutex).Lock") && strings.Contains(g, "bus/net.(*endPoint)") {
			out += g + "\n\n"
		}
	}
	return out
}

func checkConcurrent(c Case) (err error) {
	vt.Journal(prop, "TestConcurrent", "C17:process-died", c)
	defer vt.JournalDone(prop, "TestConcurrent")
	s := hio.NewScriptStream(nil)
	s.YieldEvery = 3
	s.CloseErr = c.CloseErr
	s.LazyClose = c.LazyClose
	defer s.Release()
	e := qnet.NewEndPoint(s)
	var mu sync.Mutex
	var all []*handler
	var shutdownAt int64
	var wg sync.WaitGroup
	var panics []string
	removedDuringDispatch := int32(0)
	start := make(chan struct{})
	for w, ops := range c.Workers {
		wg.Add(1)
		go func(w int, ops []Op) {
			defer wg.Done()
			defer func() {
				if p := recover(); p != nil {
					mu.Lock()
					panics = append(panics, fmt.Sprint(p))
					mu.Unlock()
				}
			}()
			var mine []*handler
			<-start
			for _, op := range ops {
				switch op.Kind {
				case "mk":
					h := newHandler(op)
					h.id = e.MakeHandler(h.filterFn(), h.queue, h.closer())
					h.regDone = tick()
					h.tracked = true
					mine = append(mine, h)
					mu.Lock()
					all = append(all, h)
					mu.Unlock()
				case "rmbad":
					e.RemoveHandler(op.Target)
				case "rm":
					if len(mine) > 0 {
						h := mine[op.Target%len(mine)]
						if e.RemoveHandler(h.id) == nil {
							atomic.AddInt32(&removedDuringDispatch, 1)
						}
					} else {
						e.RemoveHandler(op.Target)
					}
				case "inject":
					runtime.Gosched()
				}
			}
		}(w, ops)
	}
	// feeder + shutdown
	wg.Add(1)
	go func() {
		defer wg.Done()
		<-start
		for i := 0; i < 60; i++ {
			if i == c.CloseAt {
				atomic.StoreInt64(&shutdownAt, tick())
				if c.ByPeer {
					s.PeerClose()
				} else {
					e.Close()
				}
				return
			}
			s.Feed(frame(uint32(i+1), uint32(1+i%3)))
			if i%4 == 0 {
				runtime.Gosched()
			}
		}
		atomic.StoreInt64(&shutdownAt, tick())
		if c.ByPeer {
			s.PeerClose()
		} else {
			e.Close()
		}
	}()
	close(start)
	finished := make(chan struct{})
	go func() { wg.Wait(); close(finished) }()
	select {
	case <-finished:
	case <-time.After(wait):
		return vt.Violationf("C17:deadlock", "workers did not finish within %v; goroutines blocked on the handler table:\n%s", wait, stuckOnHandlersMutex())
	}
	if len(panics) > 0 {
		return vt.Violationf("C17:panic", "panic in a worker: %v", panics)
	}
	e.Close()
	sd := atomic.LoadInt64(&shutdownAt)
	before := 0
	for _, h := range all {
		if h.regDone < sd {
			before++
			if err := checkClosed(h, "concurrent shutdown"); err != nil {
				return err
			}
		}
	}
	time.Sleep(2 * time.Millisecond)
	for _, h := range all {
		if n := atomic.LoadInt32(&h.closerN); n > 1 {
			return vt.Violationf("C17:closer-count", "handler %d: close callback invoked %d times", h.id, n)
		}
		if atomic.LoadInt32(&h.afterMsg) != 0 {
			return vt.Violationf("C17:message-after-close", "handler %d: received a message after its close callback", h.id)
		}
		// what it received must be an increasing subsequence selected by its filter
		h.mu.Lock()
		last := uint32(0)
		for _, id := range h.received {
			if id <= last {
				h.mu.Unlock()
				return vt.Violationf("C17:order", "handler %d received message ids out of order or twice: %v", h.id, h.received)
			}
			last = id
			if m, _ := h.match(uint32(1 + (id-1)%3)); !m {
				h.mu.Unlock()
				return vt.Violationf("C17:wrong-messages", "handler %d (%s action %d) received message %d which its filter rejects", h.id, h.filter, h.action, id)
			}
		}
		h.mu.Unlock()
	}
	if st := stuckOnHandlersMutex(); st != "" {
		time.Sleep(50 * time.Millisecond)
		if st = stuckOnHandlersMutex(); st != "" {
			return vt.Violationf("C17:deadlock", "goroutines still blocked on the handler table at quiescence:\n%s", st)
		}
	}
	nontrivial := atomic.LoadInt32(&removedDuringDispatch) > 0 && before >= 2
	key, _ := json.Marshal(c)
	vt.Case(nontrivial, string(key), "mode=concurrent", fmt.Sprintf("workers=%d", len(c.Workers)))
	if nontrivial {
		vt.Sample("workload", map[string]interface{}{"workers": len(c.Workers), "close_at": c.CloseAt, "by_peer": c.ByPeer, "handlers_before_shutdown": before})
	}
	return nil
}

func TestSequential(t *testing.T) { vt.Run(t, prop, "TestSequential", genSequential, checkSequential) }
func TestConcurrent(t *testing.T) { vt.Run(t, prop, "TestConcurrent", genConcurrent, checkConcurrent) }

func TestReplay(t *testing.T) {
	vt.Replay(t, map[string]func(json.RawMessage) error{"TestSequential": vt.Decode(checkSequential), "TestConcurrent": vt.Decode(checkConcurrent), "TestSlowWrites": vt.Decode(checkSlow)})
}
