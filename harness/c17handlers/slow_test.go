package c17handlers

// Writes the endpoint makes by itself (the refusal it sends for a call which a
// full consumer cannot take) or on behalf of a sender, which are slow or stuck
// because the peer does not read, while handlers are removed or registered and
// the connection is shut down. Over a real synchronous connection (net.Pipe: a
// write lasts until the peer reads) and over a scripted stream whose writes
// take a generated time.

import (
	"encoding/json"
	"fmt"
	"io"
	gonet "net"
	"sync/atomic"
	"testing"
	"time"

	qnet "github.com/lugu/qiloop/bus/net"
	"pgregory.net/rapid"
	"verif/harness/hio"
	"verif/harness/vt"
)

type SlowCase struct {
	Transport   string `json:"transport"`  // netpipe | script
	Others      []Op   `json:"others"`     // handlers with room
	FullFilter  string `json:"full"`       // filter of the consumer without room: all | once
	Calls       int    `json:"calls"`      // call frames the peer sends (each is refused by the endpoint itself)
	Sender      bool   `json:"sender"`     // a goroutine of the program sends a message too
	WriteUS     int    `json:"write_us"`   // script: how long a write takes
	Then        string `json:"then"`       // rmfull | rmother | mk | none: what happens while the write lasts
	AfterUS     int    `json:"after_us"`   // ... this long after the calls were sent
	ReadAfterMS int    `json:"read_after"` // netpipe: the peer starts to read after this long; 0: it never does
	End         string `json:"end"`        // close | peerclose
}

func genSlow(t *rapid.T) SlowCase {
	c := SlowCase{
		Transport:   rapid.SampledFrom([]string{"netpipe", "netpipe", "script"}).Draw(t, "transport"),
		FullFilter:  rapid.SampledFrom([]string{"all", "once", "once"}).Draw(t, "full"),
		Calls:       rapid.IntRange(1, 3).Draw(t, "calls"),
		Sender:      rapid.Bool().Draw(t, "sender"),
		WriteUS:     rapid.SampledFrom([]int{200, 1000, 3000}).Draw(t, "writeus"),
		Then:        rapid.SampledFrom([]string{"rmfull", "rmfull", "rmother", "mk", "none"}).Draw(t, "then"),
		AfterUS:     rapid.SampledFrom([]int{0, 100, 500, 1500}).Draw(t, "afterus"),
		ReadAfterMS: rapid.SampledFrom([]int{0, 0, 3, 10}).Draw(t, "readafter"),
		End:         rapid.SampledFrom([]string{"close", "close", "peerclose"}).Draw(t, "end"),
	}
	n := rapid.IntRange(0, 3).Draw(t, "others")
	for i := 0; i < n; i++ {
		c.Others = append(c.Others, Op{Kind: "mk", Filter: rapid.SampledFrom([]string{"all", "none", "action"}).Draw(t, "filter"), Action: 1, Closer: true})
	}
	return c
}

func checkSlow(c SlowCase) (err error) {
	vt.Journal(prop, "TestSlowWrites", "C17:process-died", c)
	defer vt.JournalDone(prop, "TestSlowWrites")
	var e qnet.EndPoint
	var feed func([]byte)
	var peerClose func()
	var startReading func()
	switch c.Transport {
	case "netpipe":
		x, y := gonet.Pipe()
		e = qnet.ConnEndPoint(x)
		feed = func(b []byte) { y.Write(b) } // lasts until the endpoint has read it
		peerClose = func() { y.Close() }
		startReading = func() { go io.Copy(io.Discard, y) }
	default:
		s := hio.NewScriptStream(nil)
		s.OnWrite = func(*hio.ScriptStream, []byte) { time.Sleep(time.Duration(c.WriteUS) * time.Microsecond) }
		e = qnet.NewEndPoint(s)
		feed = s.Feed
		peerClose = s.PeerClose
		startReading = func() {}
	}
	var all []*handler
	register := func(h *handler) {
		h.id = e.MakeHandler(h.filterFn(), h.queue, h.closer())
		h.regDone = tick()
		all = append(all, h)
	}
	// the consumer without room: its one place is taken before it is registered
	full := newHandler(Op{Kind: "mkfull"})
	full.filter = c.FullFilter
	full.queue <- &qnet.Message{}
	register(full)
	for _, op := range c.Others {
		register(newHandler(op))
	}
	// the peer sends calls; the program may send as well
	fed := make(chan struct{})
	go func() {
		for i := 0; i < c.Calls; i++ {
			feed(frameOf(qnet.Call, uint32(100+i), 1))
		}
		close(fed)
	}()
	sent := make(chan struct{})
	if c.Sender {
		go func() {
			e.Send(qnet.NewMessage(qnet.NewHeader(qnet.Event, 1, 1, 1, 7), make([]byte, 1000)))
			close(sent)
		}()
	} else {
		close(sent)
	}
	time.Sleep(time.Duration(c.AfterUS) * time.Microsecond)
	thenDone := make(chan struct{})
	var rmErr error
	var rmTarget *handler
	go func() {
		defer close(thenDone)
		switch c.Then {
		case "rmfull":
			rmTarget = full
			rmErr = e.RemoveHandler(full.id)
		case "rmother":
			if len(all) > 1 {
				rmTarget = all[1]
				rmErr = e.RemoveHandler(rmTarget.id)
			}
		case "mk":
			register(newHandler(Op{Kind: "mk", Filter: "all", Closer: true}))
		}
	}()
	if c.ReadAfterMS > 0 {
		time.Sleep(time.Duration(c.ReadAfterMS) * time.Millisecond)
		startReading()
		select {
		case <-thenDone:
		case <-time.After(wait):
			return vt.Violationf("C17:deadlock", "%s of a handler did not come back %v after the peer started to read again; goroutines blocked on the handler table:\n%s", c.Then, wait, stuckOnHandlersMutex())
		}
	} else {
		time.Sleep(2 * time.Millisecond)
	}
	shutdownAt := tick()
	closed := make(chan struct{})
	go func() {
		if c.End == "close" {
			e.Close()
		} else {
			peerClose()
		}
		close(closed)
	}()
	select {
	case <-closed:
	case <-time.After(wait):
		return vt.Violationf("C17:shutdown-hangs", "%s did not come back within %v while a write of the endpoint was waiting for the peer (transport %s); goroutines blocked on the handler table:\n%s", c.End, wait, c.Transport, stuckOnHandlersMutex())
	}
	for _, ch := range []chan struct{}{thenDone, sent, fed} {
		select {
		case <-ch:
		case <-time.After(wait):
			return vt.Violationf("C17:deadlock", "an operation on the endpoint (%s / Send / the peer's write) still had not returned %v after the shutdown", c.Then, wait)
		}
	}
	for _, h := range all {
		if h.regDone < shutdownAt || (h == rmTarget && rmErr == nil) {
			if err := checkClosed(h, fmt.Sprintf("%s during a slow write, then %s", c.Then, c.End)); err != nil {
				return err
			}
		}
	}
	time.Sleep(2 * time.Millisecond)
	for _, h := range all {
		if n := atomic.LoadInt32(&h.closerN); n > 1 {
			return vt.Violationf("C17:closer-count", "handler %d (%s): close callback invoked %d times (%s while the endpoint was writing, then %s)", h.id, h.filter, n, c.Then, c.End)
		}
	}
	key, _ := json.Marshal(c)
	vt.Case(c.Then != "none", "slow"+string(key), "mode=slow-writes", "transport="+c.Transport, "then="+c.Then)
	return nil
}

func TestSlowWrites(t *testing.T) { vt.Run(t, prop, "TestSlowWrites", genSlow, checkSlow) }
