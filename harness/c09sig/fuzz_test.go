package c09sig

import (
	"testing"

	"pgregory.net/rapid"
	"verif/harness/gen"
)

// FuzzParse (thorough tier): the arbitrary-string clause of C09 under coverage
// guidance: no panic; accepted input prints a fixed point; strings of the
// reference grammar are accepted and printed unchanged.
func FuzzParse(f *testing.F) {
	for i := 0; i < 32; i++ {
		f.Add(gen.Type(typeOpts()).Example(i).Sig())
	}
	for _, s := range []string{"", "(", "()<A>", "(i)<A<B>,x>", "{s[m]}", "[[[[[[[[[[i]]]]]]]]]]", "((((((((((", "(i)<A,b,c>", " i", "i i"} {
		f.Add(s)
	}
	f.Fuzz(func(t *testing.T, s string) {
		if len(s) > 4096 {
			return
		}
		if err := checkArbitrary(Case{Kind: "arbitrary", Sig: s, Edit: "fuzz"}); err != nil {
			t.Fatal(err)
		}
	})
}

var _ = rapid.Just[int]
