// Package c09sig decides C09: type signatures round-trip through the parser.
package c09sig

import (
	"encoding/hex"
	"encoding/json"
	"fmt"
	"reflect"
	"regexp"
	"strings"
	"testing"
	"time"

	"github.com/lugu/qiloop/meta/signature"
	"pgregory.net/rapid"
	"verif/harness/gen"
	"verif/harness/ref"
	"verif/harness/vt"
)

const prop = "C09"

func TestMain(m *testing.M) {
	vt.Watchdog = 30 * time.Second
	vt.Main(m)
}

// Case is a signature string, either produced by the grammar generator or an
// arbitrary / near-miss string.
type Case struct {
	Kind string `json:"kind"` // grammar | arbitrary
	Sig  string `json:"sig"`
	Edit string `json:"edit,omitempty"`
	// SigHex carries an arbitrary byte string (not necessarily UTF-8); when
	// present it replaces Sig.
	SigHex string `json:"sig_hex,omitempty"`
	// Sibling (grammar cases): the same signature with one scalar leaf changed,
	// all names kept. It is parsed before and after Sig: whatever the parser
	// remembers from one signature must not leak into the next.
	Sibling string `json:"sibling,omitempty"`
}

func (c Case) sig() string {
	if c.SigHex != "" {
		b, _ := hex.DecodeString(c.SigHex)
		return string(b)
	}
	return c.Sig
}

var allLeaves = []ref.Kind{ref.KInt8, ref.KUint8, ref.KInt16, ref.KUint16, ref.KInt32, ref.KUint32, ref.KInt64, ref.KUint64,
	ref.KFloat32, ref.KFloat64, ref.KBool, ref.KString, ref.KValue, ref.KObject, ref.KUnknown, ref.KVoid}

func typeOpts() gen.TypeOpts {
	return gen.TypeOpts{Depth: 4, Width: 4, Leaves: allLeaves, MapKeys: gen.AllScalars, Structs: true, Tuples: true,
		Maps: true, Lists: true, Template: true, ZeroMem: true, CompositeKeys: true, Wide: true, WideOneIn: 1000}
}

var siblingKinds = []ref.Kind{ref.KInt8, ref.KUint16, ref.KInt32, ref.KUint64, ref.KFloat32, ref.KBool, ref.KString}

// collidingFields reports whether some struct of the type has two members
// whose Go field names would collide (same name, or same name up to the case
// of the first letter): such a signature is in the grammar and must print as
// it was written, but it has no Go representation (reflect.StructOf refuses
// duplicate fields), so that part of the check is left out for it.
func collidingFields(t *ref.Type) bool {
	found := false
	t.Walk(func(n *ref.Type) {
		if n.Kind != ref.KStruct {
			return
		}
		seen := map[string]bool{}
		for _, f := range n.Fields {
			k := strings.ToUpper(f[:1]) + f[1:]
			if seen[k] {
				found = true
			}
			seen[k] = true
		}
	})
	return found
}

func genGrammar(t *rapid.T) Case {
	ty := gen.DrawType(t, typeOpts())
	// now and then two members of a struct get the same name, or names which
	// differ by the case of their first letter
	if rapid.IntRange(0, 7).Draw(t, "dupfield") == 0 {
		var structs []*ref.Type
		ty.Walk(func(n *ref.Type) {
			if n.Kind == ref.KStruct && len(n.Fields) >= 2 {
				structs = append(structs, n)
			}
		})
		if len(structs) > 0 {
			n := structs[rapid.IntRange(0, len(structs)-1).Draw(t, "dupstruct")]
			f := n.Fields[0]
			if rapid.Bool().Draw(t, "casevariant") {
				if f[:1] == strings.ToUpper(f[:1]) {
					f = strings.ToLower(f[:1]) + f[1:]
				} else {
					f = strings.ToUpper(f[:1]) + f[1:]
				}
			}
			n.Fields[len(n.Fields)-1] = f
		}
	}
	c := Case{Kind: "grammar", Sig: ty.Sig()}
	// a sibling: one scalar leaf of a fresh copy of the type gets another kind
	cp, err := ref.ParseSig(c.Sig)
	if err != nil {
		return c
	}
	var leaves []*ref.Type
	cp.Walk(func(n *ref.Type) {
		if n.IsScalar() && n.Kind != ref.KVoid {
			leaves = append(leaves, n)
		}
	})
	if len(leaves) > 0 && rapid.IntRange(0, 2).Draw(t, "sibling") > 0 {
		n := leaves[rapid.IntRange(0, len(leaves)-1).Draw(t, "leaf")]
		k := rapid.SampledFrom(siblingKinds).Draw(t, "newkind")
		if k == n.Kind {
			k = ref.KInt64
		}
		n.Kind = k
		c.Sibling = cp.Sig()
	}
	return c
}

var alphabet = []rune("cCwWiIlLfdbsmoXvr[]{}()<>,,  \t\nAZaz09_é\x00")

const maxParens = 8 // signature.Parse is exponential in paren nesting: that is C07's business

func capParens(s string) string {
	n := 0
	var sb strings.Builder
	for _, r := range s {
		if r == '(' {
			n++
			if n > maxParens {
				continue
			}
		}
		sb.WriteRune(r)
	}
	return sb.String()
}

func genArbitrary(t *rapid.T) Case {
	c := Case{Kind: "arbitrary"}
	switch rapid.IntRange(0, 4).Draw(t, "akind") {
	case 4:
		return genInvalid(t)
	case 3:
		// raw bytes, not necessarily UTF-8, mostly very short
		n := rapid.SampledFrom([]int{1, 1, 1, 2, 3, 6}).Draw(t, "nbytes")
		b := rapid.SliceOfN(rapid.Byte(), n, n).Draw(t, "bytes")
		c.SigHex = hex.EncodeToString(b)
		c.Edit = "bytes"
		return c
	case 0:
		c.Sig = rapid.StringOfN(rapid.SampledFrom(alphabet), 0, 24, -1).Draw(t, "str")
		c.Edit = "random"
	default:
		o := typeOpts()
		o.Depth = 3
		base := []rune(gen.DrawType(t, o).Sig())
		pos := rapid.IntRange(0, len(base)).Draw(t, "pos")
		r := rapid.SampledFrom(alphabet).Draw(t, "rune")
		switch rapid.SampledFrom([]string{"delete", "insert", "replace", "dup"}).Draw(t, "edit") {
		case "delete":
			if pos < len(base) {
				base = append(base[:pos:pos], base[pos+1:]...)
			}
			c.Edit = "delete"
		case "insert":
			base = append(base[:pos:pos], append([]rune{r}, base[pos:]...)...)
			c.Edit = "insert"
		case "replace":
			if pos < len(base) {
				base[pos] = r
			}
			c.Edit = "replace"
		case "dup":
			if pos < len(base) {
				base = append(base[:pos:pos], append([]rune{base[pos]}, base[pos:]...)...)
			}
			c.Edit = "dup"
		}
		c.Sig = string(base)
	}
	c.Sig = capParens(c.Sig)
	return c
}

var (
	reLastName  = regexp.MustCompile(`,[A-Za-z][0-9A-Za-z_]*>`)
	reSimpleMap = regexp.MustCompile(`\{([a-zA-Z])([a-zA-Z])\}`)
	reSimpleLst = regexp.MustCompile(`\[([a-zA-Z])\]`)
	reStructNam = regexp.MustCompile(`\)<[A-Za-z][0-9A-Za-z_]*`)
	// a struct name followed by the name of the first member
	reNameAndNext = regexp.MustCompile(`\)<([A-Za-z][0-9A-Za-z_]*),([A-Za-z][0-9A-Za-z_]*)`)
)

// genInvalid builds a string which is outside the grammar by construction:
// a valid signature with one structural rule broken (a struct with one field
// name too many or too few, a map of one or three types, a list of none or two,
// a bracket missing, two types side by side, a struct without a name, a field
// name starting with a digit). Such input is rejected with an error.
func genInvalid(t *rapid.T) Case {
	o := typeOpts()
	o.Template = false
	o.Depth = 3
	s := gen.DrawType(t, o).Sig()
	if rapid.Bool().Draw(t, "wrapped") {
		// every rule has something to break in here
		s = "(" + s + "{sI}[d])<Wrap,a,b,c>"
	}
	class := rapid.SampledFrom([]string{"names-1", "names+1", "map-1", "map+1", "list+1", "list-0", "unbalanced", "two-types", "no-struct-name", "digit-field",
		"comma-trailing", "comma-leading", "comma-doubled", "garbage-name", "garbage-name"}).Draw(t, "invalid")
	first := func(re *regexp.Regexp, repl string) bool {
		loc := re.FindStringSubmatchIndex(s)
		if loc == nil {
			return false
		}
		s = s[:loc[0]] + string(re.ExpandString(nil, repl, s, loc)) + s[loc[1]:]
		return true
	}
	ok := false
	switch class {
	case "names-1":
		ok = first(reLastName, ">")
	case "names+1":
		if i := strings.Index(s, ">"); i >= 0 {
			s, ok = s[:i]+",extra"+s[i:], true
		}
	case "map-1":
		ok = first(reSimpleMap, "{$1}")
	case "map+1":
		ok = first(reSimpleMap, "{$1${2}i}")
	case "list+1":
		ok = first(reSimpleLst, "[${1}i]")
	case "list-0":
		ok = first(reSimpleLst, "[]")
	case "unbalanced":
		if i := strings.IndexAny(s, "[](){}"); i >= 0 {
			k := rapid.IntRange(0, strings.Count(s, "[")+strings.Count(s, "]")+strings.Count(s, "(")+strings.Count(s, ")")+strings.Count(s, "{")+strings.Count(s, "}")-1).Draw(t, "which")
			for j, r := range s {
				if strings.ContainsRune("[](){}", r) {
					if k == 0 {
						s, ok = s[:j]+s[j+1:], true
						break
					}
					k--
				}
			}
		}
	case "no-struct-name":
		ok = first(reStructNam, ")<")
	case "digit-field":
		ok = first(reLastName, ",1x>")
	case "comma-trailing", "comma-leading", "comma-doubled":
		// one comma too many in a definition: before the closing bracket, after
		// the opening one, or beside another one (any definition of the string)
		var at []int
		for j := 0; j < len(s); j++ {
			switch {
			case class == "comma-trailing" && s[j] == '>' && j > 0 && s[j-1] != '<' && s[j-1] != '>':
				at = append(at, j)
			case class == "comma-leading" && s[j] == '<' && j > 0 && s[j-1] == ')':
				at = append(at, j+1)
			case class == "comma-doubled" && s[j] == ',':
				at = append(at, j)
			}
		}
		if len(at) > 0 {
			j := at[rapid.IntRange(0, len(at)-1).Draw(t, "commaat")]
			s, ok = s[:j]+","+s[j:], true
		}
	case "garbage-name":
		// the name of a struct replaced by bytes which cannot start a name, as
		// long as the name which follows, or of any short length
		if loc := reNameAndNext.FindStringSubmatchIndex(s); loc != nil {
			n := loc[5] - loc[4]
			if rapid.Bool().Draw(t, "otherlen") {
				n = rapid.IntRange(1, 4).Draw(t, "garbagelen")
			}
			g := ""
			for len(g) < n {
				g += rapid.SampledFrom([]string{"%", "$", "_", "0", "9", "\x00", ".", "-", "é", "<", ">", ",", "#"}).Draw(t, "garbage")
			}
			s, ok = s[:loc[2]]+g[:n]+s[loc[3]:], true
		}
	}
	if !ok {
		class = "two-types"
	}
	if class == "two-types" {
		s += "i"
	}
	return Case{Kind: "arbitrary", Sig: s, Edit: "invalid:" + class}
}

func parse(s string) (ty signature.Type, err error, panicked interface{}) {
	defer func() {
		if r := recover(); r != nil {
			panicked = r
		}
	}()
	ty, err = signature.Parse(s)
	return
}

var scalarGo = map[ref.Kind]reflect.Kind{
	ref.KInt8: reflect.Int8, ref.KUint8: reflect.Uint8, ref.KInt16: reflect.Int16, ref.KUint16: reflect.Uint16,
	ref.KInt32: reflect.Int32, ref.KUint32: reflect.Uint32, ref.KInt64: reflect.Int64, ref.KUint64: reflect.Uint64,
	ref.KFloat32: reflect.Float32, ref.KFloat64: reflect.Float64, ref.KBool: reflect.Bool, ref.KString: reflect.String,
}

// consistent checks that a Go reflect type has the kind structure of the
// reference type.
func consistent(rt *ref.Type, gt reflect.Type) error {
	switch rt.Kind {
	case ref.KList:
		if gt.Kind() != reflect.Slice {
			return fmt.Errorf("%s is represented by %v, want a slice", rt.Sig(), gt)
		}
		return consistent(rt.Elem, gt.Elem())
	case ref.KMap:
		if gt.Kind() != reflect.Map {
			return fmt.Errorf("%s is represented by %v, want a map", rt.Sig(), gt)
		}
		if err := consistent(rt.Key, gt.Key()); err != nil {
			return err
		}
		return consistent(rt.Elem, gt.Elem())
	case ref.KTuple, ref.KStruct:
		if gt.Kind() != reflect.Struct || gt.NumField() != len(rt.Members) {
			return fmt.Errorf("%s is represented by %v, want a struct of %d fields", rt.Sig(), gt, len(rt.Members))
		}
		for i, m := range rt.Members {
			want := fmt.Sprintf("P%d", i)
			if rt.Kind == ref.KStruct {
				want = signature.CleanName(rt.Fields[i])
			}
			if gt.Field(i).Name != want {
				return fmt.Errorf("%s: field %d is named %q, want %q", rt.Sig(), i, gt.Field(i).Name, want)
			}
			if err := consistent(m, gt.Field(i).Type); err != nil {
				return err
			}
		}
		return nil
	case ref.KValue, ref.KObject, ref.KUnknown, ref.KVoid:
		return nil // only "does not panic"
	default:
		if gt.Kind() != scalarGo[rt.Kind] {
			return fmt.Errorf("%s is represented by %v", rt.Sig(), gt)
		}
	}
	return nil
}

func goType(ty signature.Type) (gt reflect.Type, panicked interface{}) {
	defer func() {
		if r := recover(); r != nil {
			panicked = r
		}
	}()
	return ty.Type(), nil
}

func checkCase(c Case) error {
	if c.Kind == "grammar" {
		return checkGrammar(c)
	}
	return checkArbitrary(c)
}

func checkGrammar(c Case) error {
	if c.Sibling != "" {
		for _, sg := range []string{c.Sibling, c.Sig, c.Sibling} {
			if err := checkOne(Case{Kind: c.Kind, Sig: sg}, sg == c.Sig); err != nil {
				return err
			}
		}
		vt.Label("with-sibling")
		// the results of earlier parses are put to use the way the generators
		// use them (both registered in one type set, where a struct whose name
		// is taken gets another one; Go type, reader and IDL name asked for):
		// whatever that does to those results, a later Parse of the same string
		// still answers for the string it is given
		if p := useParsed(c.Sibling, c.Sig); p != nil {
			return vt.Violationf("C09:use-panic", "registering the types parsed from %q and %q in one TypeSet panicked: %v", c.Sibling, c.Sig, p)
		}
		for _, sg := range []string{c.Sig, c.Sibling} {
			if err := checkOne(Case{Kind: c.Kind, Sig: sg}, false); err != nil {
				return vt.Violationf(vt.ClassOf(err)+":after-use", "after the types parsed from %q and %q had been registered in one TypeSet: %v", c.Sibling, c.Sig, err)
			}
		}
		return nil
	}
	return checkOne(c, true)
}

func useParsed(sigs ...string) (panicked interface{}) {
	defer func() {
		if r := recover(); r != nil {
			panicked = r
		}
	}()
	set := signature.NewTypeSet()
	for _, sg := range sigs {
		ty, err := signature.Parse(sg)
		if err != nil {
			continue
		}
		ty.RegisterTo(set)
		if tu, ok := ty.(*signature.TupleType); ok {
			tu.ConvertMetaObjects()
		}
		_ = ty.SignatureIDL()
		_ = ty.TypeName()
	}
	return nil
}

func checkOne(c Case, count bool) error {
	rt, err := ref.ParseSig(c.Sig)
	if err != nil {
		return vt.Violationf("C09:bad-case", "reference parser rejects generated signature %q: %v", c.Sig, err)
	}
	ty, err, p := parse(c.Sig)
	if p != nil {
		return vt.Violationf("C09:parse-panic", "Parse(%q) panicked: %v", c.Sig, p)
	}
	if err != nil {
		return vt.Violationf("C09:grammar-rejected", "Parse(%q) rejected a signature of the grammar: %v", c.Sig, err)
	}
	if got := ty.Signature(); got != c.Sig {
		return vt.Violationf("C09:print-differs", "Parse(%q).Signature() = %q", c.Sig, got)
	}
	if got, want := ty.SignatureIDL(), rt.IDL(); got != want {
		return vt.Violationf("C09:idl-name", "Parse(%q).SignatureIDL() = %q, want %q", c.Sig, got, want)
	}
	if collidingFields(rt) {
		vt.Label("struct-with-colliding-member-names")
	} else {
		gt, p := goType(ty)
		if p != nil {
			return vt.Violationf("C09:gotype-panic", "Parse(%q).Type() panicked: %v", c.Sig, p)
		}
		if err := consistent(rt, gt); err != nil {
			return vt.Violationf("C09:gotype-inconsistent", "Parse(%q).Type(): %v", c.Sig, err)
		}
	}
	if ty.Reader() == nil {
		return vt.Violationf("C09:nil-reader", "Parse(%q).Reader() is nil", c.Sig)
	}
	nontrivial := rt.Depth() >= 2 || rt.Contains(ref.KStruct)
	labels := []string{"kind=grammar", fmt.Sprintf("depth=%d", rt.Depth())}
	if rt.Contains(ref.KStruct) {
		labels = append(labels, "has-struct")
	}
	if strings.Contains(c.Sig, ">,") || strings.Contains(c.Sig, ">>") {
		labels = append(labels, "template-name")
	}
	if strings.Contains(c.Sig, "()") {
		labels = append(labels, "zero-members")
	}
	if !count {
		return nil
	}
	vt.Case(nontrivial, c.Sig, labels...)
	if nontrivial {
		vt.Sample("grammar", c.Sig)
	}
	return nil
}

func checkArbitrary(c Case) error {
	c.Sig = c.sig()
	ty, err, p := parse(c.Sig)
	if p != nil {
		return vt.Violationf("C09:parse-panic", "Parse(%q) panicked: %v", c.Sig, p)
	}
	_, refErr := ref.ParseSig(c.Sig)
	if err != nil {
		if ty != nil {
			return vt.Violationf("C09:value-and-error", "Parse(%q) returned both a type and an error", c.Sig)
		}
		if refErr == nil {
			return vt.Violationf("C09:grammar-rejected", "Parse(%q) rejected a signature of the documented grammar: %v", c.Sig, err)
		}
		vt.Case(c.Edit != "random", "rej:"+c.Sig, "kind=arbitrary", "rejected", "edit="+c.Edit)
		return nil
	}
	if ty == nil {
		return vt.Violationf("C09:nil-type", "Parse(%q) returned neither a type nor an error", c.Sig)
	}
	if strings.HasPrefix(c.Edit, "invalid:") && refErr != nil {
		return vt.Violationf("C09:invalid-accepted:"+strings.TrimPrefix(c.Edit, "invalid:"), "Parse(%q) accepted an input which breaks a rule of the grammar (%s) and printed it as %q; the reference parser says: %v", c.Sig, c.Edit, ty.Signature(), refErr)
	}
	printed := ty.Signature()
	ty2, err2, p2 := parse(printed)
	if p2 != nil {
		return vt.Violationf("C09:parse-panic", "Parse(%q) (printed form of %q) panicked: %v", printed, c.Sig, p2)
	}
	if err2 != nil {
		return vt.Violationf("C09:printed-rejected", "Parse(%q) accepted, but its printed form %q is rejected: %v", c.Sig, printed, err2)
	}
	if again := ty2.Signature(); again != printed {
		return vt.Violationf("C09:not-fixed-point", "Parse(%q) prints %q, which prints %q", c.Sig, printed, again)
	}
	if refErr == nil && printed != c.Sig {
		return vt.Violationf("C09:print-differs", "Parse(%q).Signature() = %q for a signature of the grammar", c.Sig, printed)
	}
	labels := []string{"kind=arbitrary", "accepted", "edit=" + c.Edit}
	if refErr != nil {
		// "any other input is rejected": the one thing the parser is known to
		// tolerate is white space between tokens (its scanner skips it), so an
		// accepted input outside the grammar is a signature of the grammar with
		// white space in it, and what is printed is that signature
		stripped := strings.Map(func(r rune) rune {
			if strings.ContainsRune(" \t\r\n\v\f", r) {
				return -1
			}
			return r
		}, c.Sig)
		if _, e := ref.ParseSig(stripped); e != nil || stripped != printed {
			return vt.Violationf("C09:outside-grammar-accepted", "Parse(%q) accepted an input outside the grammar and printed it as %q (the reference parser says: %v)", c.Sig, printed, refErr)
		}
		labels = append(labels, "accepted-outside-reference-grammar(white-space)")
	}
	vt.Case(true, "acc:"+c.Sig, labels...)
	vt.Sample("arbitrary-accepted", c)
	return nil
}

func TestGrammar(t *testing.T)   { vt.Run(t, prop, "TestGrammar", genGrammar, checkCase) }
func TestArbitrary(t *testing.T) { vt.Run(t, prop, "TestArbitrary", genArbitrary, checkCase) }

func TestReplay(t *testing.T) {
	vt.Replay(t, map[string]func(json.RawMessage) error{
		"TestGrammar": vt.Decode(checkCase), "TestArbitrary": vt.Decode(checkCase)})
}
