package c14prop

// The same register for an object made by the generated Create<Interface>
// constructor: the proxy it returns reaches the object through a channel of
// its own (bus.DirectClient) while the service the object was added to serves
// it to everybody else. Writers on both paths at once, a validator which takes
// its time: still one register, one event per accepted write, nothing of a
// rejected write.

import (
	"encoding/binary"
	"encoding/json"
	"fmt"
	"sort"
	"sync"
	"testing"
	"time"

	"github.com/anishathalye/porcupine"
	"github.com/lugu/qiloop/bus"
	"github.com/lugu/qiloop/bus/session"
	"github.com/lugu/qiloop/examples/space"
	"pgregory.net/rapid"
	"verif/harness/netkit"
	"verif/harness/probe"
	"verif/harness/vt"
)

type CreatedCase struct {
	ValidatorUS int        `json:"validator_us"`
	Workers     [][]ConcOp `json:"workers"` // worker i writes through: i%3 == 0 the constructor's proxy, 1 a network session, 2 the service-side helper
}

func genCreated(t *rapid.T) CreatedCase {
	c := CreatedCase{ValidatorUS: rapid.SampledFrom([]int{0, 50, 200, 500}).Draw(t, "validator")}
	w := rapid.IntRange(2, 5).Draw(t, "workers")
	next := int32(1000)
	for i := 0; i < w; i++ {
		n := rapid.IntRange(1, 10).Draw(t, "n")
		var ops []ConcOp
		for j := 0; j < n; j++ {
			op := ConcOp{Kind: rapid.SampledFrom([]string{"get", "set", "set", "set", "setbad", "setbad"}).Draw(t, "kind")}
			switch op.Kind {
			case "set":
				next++
				op.Value = next
			case "setbad":
				next++
				op.Value = -next // distinct as well: a rejected value which shows up anywhere is recognised
			}
			ops = append(ops, op)
		}
		c.Workers = append(c.Workers, ops)
	}
	return c
}

func checkCreated(c CreatedCase) error {
	vt.Journal(prop, "TestCreated", "C14:process-died", c)
	defer vt.JournalDone(prop, "TestCreated")
	env, err := netkit.StartServer(bus.Yes{})
	if err != nil {
		return vt.Violationf("C14:setup", "%v", err)
	}
	defer env.Close()
	_, actor := probe.NewBomb("main", env.Journal)
	svc, err := env.Server.NewService("Bomb", actor)
	if err != nil {
		return vt.Violationf("C14:setup", "%v", err)
	}
	impl := &probe.Bomb{Name: "created", J: env.Journal, ValidatorDelay: time.Duration(c.ValidatorUS) * time.Microsecond}
	direct, err := space.CreateBomb(env.Server.Session(), svc, impl)
	if err != nil {
		return vt.Violationf("C14:created:setup", "CreateBomb: %v", err)
	}
	oid := direct.Proxy().ObjectID()
	sid := svc.ServiceID()
	sess, err := session.NewAuthSession(env.Addr, "u", "t")
	if err != nil {
		return vt.Violationf("C14:setup", "%v", err)
	}
	defer sess.Terminate()
	rp, err := sess.Proxy("Bomb", oid)
	if err != nil {
		return vt.Violationf("C14:created:setup", "proxy of the created object %d through the network: %v", oid, err)
	}
	remote := space.MakeBomb(sess, rp)
	obs, err := netkit.Dial(env.Addr)
	if err != nil || !obs.Authenticate("u", "t", bound) {
		return vt.Violationf("C14:setup", "observer: %v", err)
	}
	defer obs.Close()
	reg := binary.LittleEndian.AppendUint32(nil, oid)
	reg = binary.LittleEndian.AppendUint32(reg, 101)
	reg = binary.LittleEndian.AppendUint64(reg, 424242)
	if f, ok := obs.CallWait(sid, oid, 0, reg, bound); !ok || f.Type != netkit.Reply {
		return vt.Violationf("C14:subscribe-error", "registerEvent(delay) on the created object: %v", f)
	}
	events := func() []int32 {
		var out []int32
		for _, f := range obs.Frames() {
			if f.Type == netkit.Event && f.Service == sid && f.Object == oid && f.Action == 101 && len(f.Payload) == 4 {
				out = append(out, int32(binary.LittleEndian.Uint32(f.Payload)))
			}
		}
		return out
	}
	var clk int64
	var cmu sync.Mutex
	now := func() int64 { cmu.Lock(); defer cmu.Unlock(); clk++; return clk }
	var hmu sync.Mutex
	var history []porcupine.Operation
	var writes []int32
	var wg sync.WaitGroup
	start := make(chan struct{})
	for wi, ops := range c.Workers {
		wg.Add(1)
		go func(wi int, ops []ConcOp) {
			defer wg.Done()
			<-start
			for _, op := range ops {
				call := now()
				var in regIn
				var out regOut
				switch op.Kind {
				case "get":
					var v int32
					var err error
					if wi%3 == 0 {
						v, err = direct.GetDelay()
					} else {
						v, err = remote.GetDelay()
					}
					in, out = regIn{}, regOut{ok: err == nil, v: v}
				default:
					var err error
					switch wi % 3 {
					case 0:
						err = direct.SetDelay(op.Value)
					case 1:
						err = remote.SetDelay(op.Value)
					default:
						err = helperOf(impl).UpdateDelay(op.Value)
					}
					in, out = regIn{write: true, v: op.Value}, regOut{ok: err == nil}
				}
				ret := now()
				hmu.Lock()
				history = append(history, porcupine.Operation{ClientId: wi, Input: in, Call: call, Output: out, Return: ret})
				if in.write && out.ok {
					writes = append(writes, in.v)
				}
				hmu.Unlock()
			}
		}(wi, ops)
	}
	close(start)
	done := make(chan struct{})
	go func() { wg.Wait(); close(done) }()
	select {
	case <-done:
	case <-time.After(2 * bound):
		return vt.Violationf("C14:hang", "concurrent property operations on a created object did not finish within %v", 2*bound)
	}
	desc := func() string {
		d := ""
		sort.Slice(history, func(i, j int) bool { return history[i].Call < history[j].Call })
		for _, h := range history {
			d += fmt.Sprintf("\n  writer %d (%s) [%d,%d] %+v -> %+v", h.ClientId, []string{"constructor's proxy", "network session", "service helper"}[h.ClientId%3], h.Call, h.Return, h.Input, h.Output)
		}
		return d
	}
	if res := porcupine.CheckOperationsTimeout(registerModel, history, 20*time.Second); res == porcupine.Illegal {
		return vt.Violationf("C14:created:not-linearizable", "object made by CreateBomb, validator taking %d µs: the history is not linearizable against a validated register:%s", c.ValidatorUS, desc())
	}
	if f, ok := obs.CallWait(sid, oid, 2, binary.LittleEndian.AppendUint32(nil, oid), bound); !ok || f.Type != netkit.Reply {
		return vt.Violationf("C14:get-error", "barrier: %v", f)
	}
	deadline := time.Now().Add(bound)
	for len(events()) < len(writes) && time.Now().Before(deadline) {
		time.Sleep(100 * time.Microsecond)
	}
	time.Sleep(time.Millisecond)
	got := events()
	a, b := append([]int32{}, got...), append([]int32{}, writes...)
	sort.Slice(a, func(i, j int) bool { return a[i] < a[j] })
	sort.Slice(b, func(i, j int) bool { return b[i] < b[j] })
	if fmt.Sprint(a) != fmt.Sprint(b) {
		return vt.Violationf("C14:created:events", "object made by CreateBomb, validator taking %d µs: change events %v do not match the accepted writes %v (one event per accepted write, none for a rejected one):%s", c.ValidatorUS, got, writes, desc())
	}
	overlap := false
	for i, x := range history {
		for _, y := range history[i+1:] {
			if x.Input.(regIn).write && y.Input.(regIn).write && x.ClientId%3 != y.ClientId%3 && x.Call < y.Return && y.Call < x.Return {
				overlap = true
			}
		}
	}
	key, _ := json.Marshal(c)
	vt.Case(overlap, "created"+string(key), "mode=created-object", fmt.Sprintf("validator-us=%d", c.ValidatorUS))
	return nil
}

func helperOf(b *probe.Bomb) space.BombSignalHelper { return b.GetHelper() }

func TestCreated(t *testing.T) { vt.Run(t, prop, "TestCreated", genCreated, checkCreated) }
