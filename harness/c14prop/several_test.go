package c14prop

// Several properties on one object (a stub which the repository's generator
// produced for harness/probe/gauge/gauge.qi.idl: level, count, label). Each
// property has one writer at a time - a client through the network, another
// client, or the service itself through its helper - and the writers of
// different properties run at once. A register which is the only one written
// by its writer holds, once a write is acknowledged, exactly that value until
// the same writer writes again: whatever happens to the neighbouring
// properties meanwhile. Change events of each property: exactly its accepted
// writes, in order.

import (
	"encoding/binary"
	"fmt"
	"sync"
	"testing"
	"time"

	"github.com/lugu/qiloop/bus"
	"github.com/lugu/qiloop/bus/session"
	"pgregory.net/rapid"
	"verif/harness/netkit"
	"verif/harness/probe/gauge"
	"verif/harness/vt"
)

type SeveralCase struct {
	ValidatorUS int `json:"validator_us"`
	// Writers: one per property (level, count, label); Via: "client" (a network
	// session of its own), "shared" (the session of the first writer), "service"
	// (the helper handed to the implementation); N writes each; every Bad-th
	// write is one the validator refuses (0: none)
	Writers []SeveralWriter `json:"writers"`
}

type SeveralWriter struct {
	Via string `json:"via"`
	N   int    `json:"n"`
	Bad int    `json:"bad"`
}

func genSeveral(t *rapid.T) SeveralCase {
	c := SeveralCase{ValidatorUS: rapid.SampledFrom([]int{0, 0, 50, 300}).Draw(t, "validator")}
	for i := 0; i < 3; i++ {
		c.Writers = append(c.Writers, SeveralWriter{
			Via: rapid.SampledFrom([]string{"client", "shared", "service", "service", "idle"}).Draw(t, "via"),
			N:   rapid.IntRange(1, 40).Draw(t, "n"),
			Bad: rapid.SampledFrom([]int{0, 0, 3, 5}).Draw(t, "bad"),
		})
	}
	return c
}

func checkSeveral(c SeveralCase) error {
	vt.Journal(prop, "TestSeveralProperties", "C14:process-died", c)
	defer vt.JournalDone(prop, "TestSeveralProperties")
	env, err := netkit.StartServer(bus.Yes{})
	if err != nil {
		return vt.Violationf("C14:setup", "%v", err)
	}
	defer env.Close()
	impl := &gauge.Impl{ValidatorDelay: time.Duration(c.ValidatorUS) * time.Microsecond}
	svc, err := env.Server.NewService("Gauge", gauge.GaugeObject(impl))
	if err != nil {
		return vt.Violationf("C14:setup", "NewService: %v", err)
	}
	sid := svc.ServiceID()
	var sessions []bus.Session
	newProxy := func(shared bool) (gauge.GaugeProxy, error) {
		if shared && len(sessions) > 0 {
			return gauge.Gauge(sessions[0])
		}
		s, err := session.NewAuthSession(env.Addr, "u", "t")
		if err != nil {
			return nil, err
		}
		sessions = append(sessions, s)
		return gauge.Gauge(s)
	}
	defer func() {
		for _, s := range sessions {
			s.Terminate()
		}
	}()
	reader, err := newProxy(false)
	if err != nil {
		return vt.Violationf("C14:setup", "proxy: %v", err)
	}
	// change events, frame by frame, on a raw connection
	obs, err := netkit.Dial(env.Addr)
	if err != nil || !obs.Authenticate("u", "t", bound) {
		return vt.Violationf("C14:setup", "observer: %v", err)
	}
	defer obs.Close()
	mo := reader.Proxy().MetaObject()
	names := []string{"level", "count", "label"}
	ids := make([]uint32, 3)
	for i, n := range names {
		id, err := mo.PropertyID(n, map[string]string{"level": "i", "count": "i", "label": "s"}[n])
		if err != nil {
			return vt.Violationf("C14:setup", "property %s: %v", n, err)
		}
		ids[i] = id
		reg := binary.LittleEndian.AppendUint32(nil, 1)
		reg = binary.LittleEndian.AppendUint32(reg, id)
		reg = binary.LittleEndian.AppendUint64(reg, uint64(770000+i))
		if f, ok := obs.CallWait(sid, 1, 0, reg, bound); !ok || f.Type != netkit.Reply {
			return vt.Violationf("C14:subscribe-error", "registerEvent(%s): %v", n, f)
		}
	}
	type writer struct {
		set  func(k int, bad bool) error // writes the k-th value (or a refused one)
		get  func() (string, error)
		want func(k int) string
	}
	mk := func(i int, w SeveralWriter) (*writer, error) {
		var p gauge.GaugeProxy
		if w.Via != "service" {
			var err error
			if p, err = newProxy(w.Via == "shared"); err != nil {
				return nil, err
			}
		}
		h := impl.GetHelper()
		num := func(k int, bad bool) int32 {
			if bad {
				return -int32(1000*(i+1) + k)
			}
			return int32(1000*(i+1) + k)
		}
		switch i {
		case 0:
			return &writer{
				set: func(k int, bad bool) error {
					if p != nil {
						return p.SetLevel(num(k, bad))
					}
					return h.UpdateLevel(num(k, bad))
				},
				get:  func() (string, error) { v, err := reader.GetLevel(); return fmt.Sprint(v), err },
				want: func(k int) string { return fmt.Sprint(num(k, false)) },
			}, nil
		case 1:
			return &writer{
				set: func(k int, bad bool) error {
					if p != nil {
						return p.SetCount(num(k, bad))
					}
					return h.UpdateCount(num(k, bad))
				},
				get:  func() (string, error) { v, err := reader.GetCount(); return fmt.Sprint(v), err },
				want: func(k int) string { return fmt.Sprint(num(k, false)) },
			}, nil
		}
		lab := func(k int, bad bool) string {
			if bad {
				return "bad"
			}
			return fmt.Sprintf("label-%d", k)
		}
		return &writer{
			set: func(k int, bad bool) error {
				if p != nil {
					return p.SetLabel(lab(k, bad))
				}
				return h.UpdateLabel(lab(k, bad))
			},
			get:  func() (string, error) { return reader.GetLabel() },
			want: func(k int) string { return lab(k, false) },
		}, nil
	}
	var wg sync.WaitGroup
	errs := make(chan error, 3)
	accepted := make([][]string, 3)
	active := 0
	start := make(chan struct{})
	for i, w := range c.Writers {
		if w.Via == "idle" {
			continue
		}
		active++
		wr, err := mk(i, w)
		if err != nil {
			return vt.Violationf("C14:setup", "writer: %v", err)
		}
		wg.Add(1)
		go func(i int, w SeveralWriter, wr *writer) {
			defer wg.Done()
			<-start
			last := ""
			if i < 2 {
				last = "0"
			}
			for k := 1; k <= w.N; k++ {
				bad := w.Bad > 0 && k%w.Bad == 0
				err := wr.set(k, bad)
				if bad {
					if err == nil {
						errs <- vt.Violationf("C14:several:invalid-write-accepted", "property %s: a write the validator refuses was acknowledged (writer %s, write %d)", names[i], w.Via, k)
						return
					}
				} else {
					if err != nil {
						errs <- vt.Violationf("C14:several:write-failed", "property %s: write %d by its only writer (%s) failed: %v", names[i], k, w.Via, err)
						return
					}
					last = wr.want(k)
					accepted[i] = append(accepted[i], last)
				}
				got, err := wr.get()
				if err != nil {
					errs <- vt.Violationf("C14:several:read-failed", "property %s: %v", names[i], err)
					return
				}
				if got != last {
					errs <- vt.Violationf("C14:several:lost-write", "property %s holds %q after the write of %q by its only writer (%s) was acknowledged (write %d of %d; %d properties written at once)", names[i], got, last, w.Via, k, w.N, active)
					return
				}
			}
		}(i, w, wr)
	}
	close(start)
	done := make(chan struct{})
	go func() { wg.Wait(); close(done) }()
	select {
	case <-done:
	case <-time.After(6 * bound):
		return vt.Violationf("C14:several:hang", "the writers did not finish within %v\n%s", 6*bound, vt.BlockedInLibrary())
	}
	select {
	case err := <-errs:
		return err
	default:
	}
	// a barrier on the observer's connection, then: the events of each property
	// are its accepted writes (after the initial value), in order
	if _, ok := obs.CallWait(sid, 1, 2, nil, bound); !ok {
		return vt.Violationf("C14:several:hang", "the observer's barrier call was not answered")
	}
	for i := range names {
		var got []string
		for _, f := range obs.Frames() {
			if f.Type == netkit.Event && f.Service == sid && f.Object == 1 && f.Action == ids[i] {
				if i < 2 && len(f.Payload) == 4 {
					got = append(got, fmt.Sprint(int32(binary.LittleEndian.Uint32(f.Payload))))
				} else if s, ok := netkit.DecodeString(f.Payload); ok {
					got = append(got, s)
				} else {
					got = append(got, fmt.Sprintf("undecodable %x", f.Payload))
				}
			}
		}
		if fmt.Sprint(got) != fmt.Sprint(accepted[i]) {
			return vt.Violationf("C14:several:events", "property %s: change events %v, accepted writes %v", names[i], got, accepted[i])
		}
	}
	vt.Case(active >= 2, fmt.Sprintf("several%+v", c), "mode=several-properties", fmt.Sprintf("properties-written-at-once=%d", active))
	return nil
}

func TestSeveralProperties(t *testing.T) {
	vt.Run(t, prop, "TestSeveralProperties", genSeveral, checkSeveral)
}
