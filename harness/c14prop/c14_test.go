// Package c14prop decides C14: a property is an atomic, typed register with
// validated writes and change events.
package c14prop

import (
	"encoding/binary"
	"encoding/hex"
	"encoding/json"
	"fmt"
	"io"
	"log"
	"sort"
	"sync"
	"testing"
	"time"

	"github.com/anishathalye/porcupine"
	"github.com/lugu/qiloop/bus"
	"github.com/lugu/qiloop/bus/session"
	"github.com/lugu/qiloop/examples/space"
	"pgregory.net/rapid"
	"verif/harness/netkit"
	"verif/harness/probe"
	"verif/harness/ref"
	"verif/harness/vt"
)

const prop = "C14"

func TestMain(m *testing.M) {
	log.SetOutput(io.Discard)
	vt.Main(m)
}

// Op is one step of a sequential script.
type Op struct {
	Kind   string `json:"kind"`   // get | set | setbad | settyped | update | updatebad | subscribe | unsubscribe | rawget | stats | trace | set2 | update2 | subscribe2 (the twin object)
	Client int    `json:"client"` // which client session
	Value  int32  `json:"value"`
	ByID   bool   `json:"by_id,omitempty"`   // settyped: address the property by id instead of name
	ValHex string `json:"val_hex,omitempty"` // settyped: the wrongly typed dynamic value (reference encoding, sig + body)
	Desc   string `json:"desc,omitempty"`
}

type Case struct {
	Clients int  `json:"clients"`
	Ops     []Op `json:"ops"`
}

// wrongTyped generates a dynamic value that is not an int32.
func wrongTyped(t *rapid.T) (string, string) {
	var d ref.Dyn
	switch rapid.IntRange(0, 7).Draw(t, "wt") {
	case 0:
		d = ref.Dyn{T: ref.Scalar(ref.KString), V: rapid.SampledFrom([]string{"abcd", "", "ab", "abcdefgh"}).Draw(t, "s")}
	case 1:
		d = ref.Dyn{T: ref.Scalar(ref.KInt64), V: rapid.Int64().Draw(t, "l")}
	case 2:
		d = ref.Dyn{T: ref.Scalar(ref.KUint32), V: rapid.Uint32().Draw(t, "I")}
	case 3:
		d = ref.Dyn{T: ref.Scalar(ref.KFloat32), V: float32(1.5)}
	case 4:
		d = ref.Dyn{T: ref.ListOf(ref.Scalar(ref.KInt32)), V: ref.List{int32(1), int32(2)}}
	case 5:
		d = ref.Dyn{T: ref.TupleOf(ref.Scalar(ref.KInt32)), V: ref.Tuple{int32(5)}}
	case 6:
		d = ref.Dyn{T: ref.Scalar(ref.KBool), V: true}
	default:
		d = ref.Dyn{T: ref.Scalar(ref.KInt16), V: int16(3)}
	}
	return hex.EncodeToString(ref.EncodeDyn(d)), ref.Render(d)
}

func genCase(t *rapid.T) Case {
	c := Case{Clients: rapid.IntRange(1, 3).Draw(t, "clients")}
	n := rapid.IntRange(3, 25).Draw(t, "n")
	for i := 0; i < n; i++ {
		op := Op{Client: rapid.IntRange(0, c.Clients-1).Draw(t, "client")}
		op.Kind = rapid.SampledFrom([]string{"get", "get", "set", "set", "setbad", "settyped", "settyped", "update", "updatebad", "subscribe", "rawget", "set2", "update2", "subscribe2", "stats", "trace", "unsubscribe", "subscribe", "subscribe2", "terminate2", "stalecancel2", "unsubscribe", "brokensub", "churnsubs", "dupidsub", "sidesub", "sidesub", "slotreuse"}).Draw(t, "kind")
		switch op.Kind {
		case "set", "update", "set2", "update2":
			op.Value = rapid.Int32Range(0, 1<<30).Draw(t, "v")
		case "setbad", "updatebad":
			op.Value = rapid.Int32Range(-1<<30, -1).Draw(t, "neg")
		case "settyped":
			op.ValHex, op.Desc = wrongTyped(t)
			op.ByID = rapid.Bool().Draw(t, "byid")
		case "churnsubs":
			op.Value = rapid.Int32Range(0, 7).Draw(t, "order")
		case "unsubscribe":
			op.Value = rapid.Int32Range(0, 3).Draw(t, "which") // which of the client's subscribers leaves
		case "stats", "trace":
			// statistics / tracing of the object switched on (1) or off (0)
			op.Value = rapid.SampledFrom([]int32{1, 1, 0}).Draw(t, "onoff")
		}
		c.Ops = append(c.Ops, op)
	}
	return c
}

const bound = 10 * time.Second

type subscriber struct {
	cancel   func()
	ch       chan int32
	mu       sync.Mutex
	received []int32
	expected []int32
}

func (s *subscriber) run() {
	for v := range s.ch {
		s.mu.Lock()
		s.received = append(s.received, v)
		s.mu.Unlock()
	}
}

func (s *subscriber) got() []int32 {
	s.mu.Lock()
	defer s.mu.Unlock()
	return append([]int32{}, s.received...)
}

type client struct {
	proxy space.BombProxy
	raw   *netkit.RawClient
	subs  []*subscriber
	// a second Bomb object of the same service (same property id): its own
	// register, its own subscribers, reached through the same session
	proxy2 space.BombProxy
	subs2  []*subscriber
	twin   *probe.Bomb
	// removeTwin removes the second object from its service
	removeTwin func() error
	// a subscription to another signal of the first object (boom), held through
	// the same proxy and connection as the property's subscribers
	sideCancel func()
}

const staleCancelClass = "C14:stale-cancel-removes-reused-handler"

func dynString(s string) []byte { return ref.EncodeDyn(ref.Dyn{T: ref.Scalar(ref.KString), V: s}) }

func setup(nclients int) (*netkit.Env, *probe.Bomb, uint32, []*client, func(), error) {
	env, err := netkit.StartServer(bus.Yes{})
	if err != nil {
		return nil, nil, 0, nil, nil, err
	}
	bomb, actor := probe.NewBomb("bomb", env.Journal)
	svc, err := env.Server.NewService("Bomb", actor)
	if err != nil {
		env.Close()
		return nil, nil, 0, nil, nil, err
	}
	twin, actor2 := probe.NewBomb("bomb2", env.Journal)
	obj2, err := svc.Add(actor2)
	if err != nil {
		env.Close()
		return nil, nil, 0, nil, nil, err
	}
	var clients []*client
	var closers []func()
	for i := 0; i < nclients; i++ {
		sess, err := session.NewAuthSession(env.Addr, "u", "t")
		if err != nil {
			env.Close()
			return nil, nil, 0, nil, nil, err
		}
		closers = append(closers, func() { sess.Terminate() })
		p, err := sess.Proxy("Bomb", 1)
		if err != nil {
			env.Close()
			return nil, nil, 0, nil, nil, err
		}
		raw, err := netkit.Dial(env.Addr)
		if err != nil || !raw.Authenticate("u", "t", bound) {
			env.Close()
			return nil, nil, 0, nil, nil, fmt.Errorf("raw client: %v", err)
		}
		closers = append(closers, raw.Close)
		p2, err := sess.Proxy("Bomb", obj2)
		if err != nil {
			env.Close()
			return nil, nil, 0, nil, nil, err
		}
		clients = append(clients, &client{proxy: space.MakeBomb(sess, p), raw: raw, proxy2: space.MakeBomb(sess, p2), twin: twin,
			removeTwin: func() error { return svc.Remove(obj2) }})
	}
	cleanup := func() {
		for _, f := range closers {
			f()
		}
		env.Close()
	}
	return env, bomb, svc.ServiceID(), clients, cleanup, nil
}

// rawProperty calls the generic property() action and returns the signature
// and body of the dynamic value in the reply.
func rawProperty(raw *netkit.RawClient, sid uint32) (string, []byte, error) {
	f, ok := raw.CallWait(sid, 1, 5, dynString("delay"), bound)
	if !ok {
		return "", nil, fmt.Errorf("no answer")
	}
	if f.Type != netkit.Reply {
		return "", nil, fmt.Errorf("error reply: %s", netkit.ErrorText(f.Payload))
	}
	v, n, err := ref.Decode(ref.Scalar(ref.KValue), f.Payload)
	if err != nil || n != len(f.Payload) {
		return "", nil, fmt.Errorf("undecodable property value %x: %v", f.Payload, err)
	}
	d := v.(ref.Dyn)
	return d.T.Sig(), ref.Encode(d.T, d.V), nil
}

func checkCase(c Case) error {
	vt.Journal(prop, "TestRegister", "C14:process-died", c)
	defer vt.JournalDone(prop, "TestRegister")
	env, bomb, sid, clients, cleanup, err := setup(c.Clients)
	if err != nil {
		return vt.Violationf("C14:setup", "%v", err)
	}
	defer cleanup()
	model := int32(10) // Activate initialises the property with UpdateDelay(10)
	twinGone := false  // the second object has been removed from its service
	broken := 0        // subscribers whose connection is broken
	// raw subscribers of the first object's delay which picked an identifier
	// another connection uses already: a registration which is acknowledged is
	// served like any other (one which is refused is simply not there)
	type rawSub struct {
		raw      *netkit.RawClient
		from     int
		expected []int32
	}
	var rawSubs []*rawSub
	rejected, typed, updates := 0, 0, 0

	// every subscriber has exactly the accepted writes since it subscribed
	checkEvents := func(step int, why string) error {
		for ri, rs := range rawSubs {
			// a barrier on the subscriber's own connection: what was emitted before is in
			if _, ok := rs.raw.CallWait(sid, 1, 2, binary.LittleEndian.AppendUint32(nil, 1), bound); !ok {
				return vt.Violationf("C14:get-error", "step %d: barrier call of a raw subscriber was not answered", step)
			}
			var got []int32
			for _, f := range rs.raw.Frames()[rs.from:] {
				if f.Type == netkit.Event && f.Service == sid && f.Object == 1 && f.Action == 101 && len(f.Payload) == 4 {
					got = append(got, int32(binary.LittleEndian.Uint32(f.Payload)))
				}
			}
			if fmt.Sprint(got) != fmt.Sprint(rs.expected) {
				return vt.Violationf("C14:events", "step %d (%s): raw subscriber %d, whose registration (an identifier another connection uses too) was acknowledged, received %v, the accepted writes are %v", step, why, ri, got, rs.expected)
			}
		}
		for ci, cl := range clients {
			all := append([]*subscriber{}, cl.subs...)
			if !twinGone {
				all = append(all, cl.subs2...)
			}
			for si, s := range all {
				// barrier on the subscriber's connection, then wait for the pipeline
				if _, err := cl.proxy.GetDelay(); err != nil {
					return vt.Violationf("C14:get-error", "step %d: barrier GetDelay failed: %v", step, err)
				}
				deadline := time.Now().Add(bound)
				for {
					got := s.got()
					if len(got) >= len(s.expected) {
						if fmt.Sprint(got) != fmt.Sprint(s.expected) {
							return vt.Violationf("C14:events", "step %d (%s): subscriber %d/%d received %v, the accepted writes are %v", step, why, ci, si, got, s.expected)
						}
						break
					}
					if time.Now().After(deadline) {
						return vt.Violationf("C14:event-missing", "step %d (%s): subscriber %d/%d received %v, the accepted writes are %v", step, why, ci, si, got, s.expected)
					}
					time.Sleep(100 * time.Microsecond)
				}
			}
		}
		return nil
	}
	accepted := func(v int32) {
		model = v
		for _, rs := range rawSubs {
			rs.expected = append(rs.expected, v)
		}
		for _, cl := range clients {
			for _, s := range cl.subs {
				s.expected = append(s.expected, v)
			}
		}
	}
	staleCancelAt := -1
	model2 := int32(10)
	accepted2 := func(v int32) {
		model2 = v
		for _, cl := range clients {
			for _, s := range cl.subs2 {
				s.expected = append(s.expected, v)
			}
		}
	}
	for i, op := range c.Ops {
		cl := clients[op.Client]
		switch op.Kind {
		case "get":
			v, err := cl.proxy.GetDelay()
			if err != nil {
				return vt.Violationf("C14:get-error", "step %d: GetDelay failed: %v (last accepted write %d)", i, err, model)
			}
			if v != model {
				return vt.Violationf("C14:stale-read", "step %d: GetDelay returned %d, the last accepted write is %d", i, v, model)
			}
		case "rawget":
			sig, body, err := rawProperty(cl.raw, sid)
			if err != nil {
				return vt.Violationf("C14:get-error", "step %d: property() failed: %v", i, err)
			}
			if sig != "i" {
				return vt.Violationf("C14:wrong-type-read", "step %d: property() returned a value of signature %q, the property is declared int32", i, sig)
			}
			if v := int32(binary.LittleEndian.Uint32(body)); v != model {
				return vt.Violationf("C14:stale-read", "step %d: property() returned %d, the last accepted write is %d", i, v, model)
			}
		case "set":
			if err := cl.proxy.SetDelay(op.Value); err != nil {
				return vt.Violationf("C14:valid-write-rejected", "step %d: SetDelay(%d) failed: %v", i, op.Value, err)
			}
			accepted(op.Value)
		case "setbad":
			rejected++
			if err := cl.proxy.SetDelay(op.Value); err == nil {
				return vt.Violationf("C14:invalid-write-accepted", "step %d: SetDelay(%d) was accepted although the validator rejects negatives", i, op.Value)
			}
		case "settyped":
			typed++
			val, _ := hex.DecodeString(op.ValHex)
			name := dynString("delay")
			if op.ByID {
				name = ref.EncodeDyn(ref.Dyn{T: ref.Scalar(ref.KUint32), V: uint32(101)})
			}
			f, ok := cl.raw.CallWait(sid, 1, 6, append(name, val...), bound)
			if !ok {
				return vt.Violationf("C14:set-no-answer", "step %d: setProperty(%s) got no answer", i, op.Desc)
			}
			if f.Type == netkit.Reply {
				return vt.Violationf("C14:wrongly-typed-write-accepted", "step %d: setProperty(delay, %s) was accepted although the property is declared int32", i, op.Desc)
			}
		case "update":
			updates++
			if err := bomb.Helper.UpdateDelay(op.Value); err != nil {
				return vt.Violationf("C14:valid-write-rejected", "step %d: service-side UpdateDelay(%d) failed: %v", i, op.Value, err)
			}
			accepted(op.Value)
		case "updatebad":
			rejected++
			if err := bomb.Helper.UpdateDelay(op.Value); err == nil {
				return vt.Violationf("C14:invalid-write-accepted", "step %d: service-side UpdateDelay(%d) was accepted although the validator rejects negatives", i, op.Value)
			}
		case "stats", "trace":
			action := uint32(81)
			if op.Kind == "trace" {
				action = 85
			}
			if f, ok := cl.raw.CallWait(sid, 1, action, []byte{byte(op.Value & 1)}, bound); !ok || f.Type != netkit.Reply {
				return vt.Violationf("C14:setup", "step %d: %s(%d) answered %v", i, op.Kind, op.Value, f)
			}
			vt.Label("stats-or-trace-toggled")
		case "terminate2":
			// the second object is removed from its service: its subscribers are
			// told (C16); the cancel functions they hold are called later
			if twinGone {
				continue
			}
			if err := cl.removeTwin(); err != nil {
				return vt.Violationf("C14:setup", "step %d: removing the second object: %v", i, err)
			}
			twinGone = true
			vt.Label("second-object-removed")
		case "slotreuse":
			// the whole sequence in one step: this client subscribes to the second
			// object's property, the object is removed (the subscription is ended by
			// the server), the client subscribes to the first object's property -
			// whatever the dead subscription held on the connection is free to be
			// used again - and only then is the dead subscription's cancel function
			// called: it releases nothing which belongs to the newcomer
			if twinGone || len(cl.subs) >= 2 {
				continue
			}
			cancel2, ch2, err := cl.proxy2.SubscribeDelay()
			if err != nil {
				return vt.Violationf("C14:subscribe-error", "step %d: SubscribeDelay on the second object failed: %v", i, err)
			}
			drained := make(chan struct{})
			go func() {
				for range ch2 {
				}
				close(drained)
			}()
			if err := cl.removeTwin(); err != nil {
				return vt.Violationf("C14:setup", "step %d: removing the second object: %v", i, err)
			}
			twinGone = true
			// a call through the same connection: the end of the subscription has arrived
			if _, err := cl.proxy.GetDelay(); err != nil {
				return vt.Violationf("C14:get-error", "step %d: barrier GetDelay failed: %v", i, err)
			}
			cancel, ch, err := cl.proxy.SubscribeDelay()
			if err != nil {
				return vt.Violationf("C14:subscribe-error", "step %d: SubscribeDelay failed: %v", i, err)
			}
			ns := &subscriber{ch: ch, cancel: cancel}
			go ns.run()
			cl.subs = append(cl.subs, ns)
			if vt.Known(staleCancelClass) {
				// the listed finding: the goroutine of a subscription which the
				// server has ended may not have noticed yet when cancel is called;
				// it then picks at random between "ended" and "cancelled" and in the
				// second case removes the handler slot by number, which may be the
				// newcomer's or a pending call's. Excluded by construction: the
				// cancel function is only called once the dead subscription's
				// channel has been closed (its goroutine is gone).
				select {
				case <-drained:
				case <-time.After(bound):
					return vt.Violationf("C14:event-missing", "step %d: the channel of a subscription whose object was removed is still open after %v", i, bound)
				}
				vt.Excluded(staleCancelClass)
			}
			cancel2()
			staleCancelAt = i
			vt.Label("second-object-removed")
			vt.Label("cancel-after-object-removed-and-new-subscription")
		case "stalecancel2":
			// cancel functions of subscriptions whose object is gone: whatever
			// they release, it is not what others have subscribed since
			if !twinGone {
				continue
			}
			for _, c2 := range clients {
				for _, s := range c2.subs2 {
					if s.cancel != nil {
						s.cancel()
						s.cancel = nil
						vt.Label("cancel-after-object-removed")
					}
				}
				c2.subs2 = nil
			}
		case "set2":
			if twinGone {
				continue
			}
			if err := cl.proxy2.SetDelay(op.Value); err != nil {
				return vt.Violationf("C14:valid-write-rejected", "step %d: SetDelay(%d) on the second object failed: %v", i, op.Value, err)
			}
			accepted2(op.Value)
		case "update2":
			if twinGone {
				continue
			}
			if err := cl.twin.Helper.UpdateDelay(op.Value); err != nil {
				return vt.Violationf("C14:valid-write-rejected", "step %d: service-side UpdateDelay(%d) on the second object failed: %v", i, op.Value, err)
			}
			accepted2(op.Value)
		case "subscribe2":
			if twinGone || len(cl.subs2) >= 2 {
				continue
			}
			cancel2, ch, err := cl.proxy2.SubscribeDelay()
			if err != nil {
				return vt.Violationf("C14:subscribe-error", "step %d: SubscribeDelay on the second object failed: %v", i, err)
			}
			s := &subscriber{ch: ch, cancel: cancel2}
			go s.run()
			cl.subs2 = append(cl.subs2, s)
			vt.Label("subscriber-on-second-object")
		case "churnsubs":
			// two or three subscribers come through this client's proxy and all
			// leave again, in the order they came or another; whoever subscribes
			// afterwards gets one event per write like everybody else
			if len(cl.subs) > 0 {
				continue
			}
			n := 2 + int(op.Value)%2
			var tmp []*subscriber
			for k := 0; k < n; k++ {
				cancel, ch, err := cl.proxy.SubscribeDelay()
				if err != nil {
					return vt.Violationf("C14:subscribe-error", "step %d: SubscribeDelay failed: %v", i, err)
				}
				sb := &subscriber{ch: ch, cancel: cancel}
				go sb.run()
				tmp = append(tmp, sb)
			}
			if op.Value/2%2 == 1 { // the last to come leaves first
				for l, r := 0, len(tmp)-1; l < r; l, r = l+1, r-1 {
					tmp[l], tmp[r] = tmp[r], tmp[l]
				}
			}
			for _, sb := range tmp {
				sb.cancel()
			}
			vt.Label("subscribers-came-and-left")
		case "sidesub":
			// this client subscribes to another signal of the same object, or, if
			// it has done so before, cancels that subscription: the registrations
			// of the property's subscribers on the same connection are not affected
			if cl.sideCancel != nil {
				cl.sideCancel()
				cl.sideCancel = nil
				vt.Label("side-subscription-cancelled")
				if len(cl.subs) > 0 {
					vt.Label("side-subscription-cancelled-beside-a-property-subscriber")
				}
				break
			}
			cancel, ch, err := cl.proxy.SubscribeBoom()
			if err != nil {
				return vt.Violationf("C14:subscribe-error", "step %d: SubscribeBoom failed: %v", i, err)
			}
			go func() {
				for range ch {
				}
			}()
			cl.sideCancel = cancel
		case "dupidsub":
			// two more connections register for the change events with the same
			// identifier (clients which number their registrations from one do)
			if len(rawSubs) >= 4 {
				continue
			}
			for k := 0; k < 2; k++ {
				dc, err := netkit.Dial(env.Addr)
				if err != nil || !dc.Authenticate("u", "t", bound) {
					return vt.Violationf("C14:setup", "raw client: %v", err)
				}
				defer dc.Close()
				reg := binary.LittleEndian.AppendUint32(nil, 1)
				reg = binary.LittleEndian.AppendUint32(reg, 101)
				reg = binary.LittleEndian.AppendUint64(reg, uint64(990000+i))
				from := len(dc.Frames())
				f, ok := dc.CallWait(sid, 1, 0, reg, bound)
				if !ok {
					return vt.Violationf("C14:subscribe-error", "step %d: registerEvent(delay) was not answered", i)
				}
				if f.Type == netkit.Reply {
					rawSubs = append(rawSubs, &rawSub{raw: dc, from: from})
					vt.Label(fmt.Sprintf("registration-with-an-identifier-in-use=acknowledged(%d)", k))
				} else {
					vt.Label("registration-with-an-identifier-in-use=refused")
				}
			}
		case "brokensub":
			// one more connection registers for the change events and then stops
			// listening (its reading side is shut down: what the server writes to
			// it fails) without saying so: whoever else is registered, earlier or
			// later, still gets every change
			if broken >= 2 {
				continue
			}
			bc, err := netkit.Dial(env.Addr)
			if err != nil || !bc.Authenticate("u", "t", bound) {
				return vt.Violationf("C14:setup", "raw client: %v", err)
			}
			defer bc.Close()
			reg := binary.LittleEndian.AppendUint32(nil, 1)
			reg = binary.LittleEndian.AppendUint32(reg, 101)
			reg = binary.LittleEndian.AppendUint64(reg, uint64(880000+i))
			if f, ok := bc.CallWait(sid, 1, 0, reg, bound); !ok || f.Type != netkit.Reply {
				return vt.Violationf("C14:subscribe-error", "step %d: registerEvent(delay): %v", i, f)
			}
			if bc.CloseRead() {
				broken++
				vt.Label("subscriber-with-a-broken-connection")
			}
		case "subscribe":
			if len(cl.subs) >= 2 {
				continue
			}
			cancel, ch, err := cl.proxy.SubscribeDelay()
			if err != nil {
				return vt.Violationf("C14:subscribe-error", "step %d: SubscribeDelay failed: %v", i, err)
			}
			s := &subscriber{ch: ch, cancel: cancel}
			go s.run()
			cl.subs = append(cl.subs, s)
		case "unsubscribe":
			// one of this client's subscribers leaves, not necessarily the most recent
			// (everything due to it has been checked after the previous step); the others stay
			if len(cl.subs) == 0 {
				continue
			}
			k := int(op.Value) % len(cl.subs)
			last := cl.subs[k]
			cl.subs = append(append([]*subscriber{}, cl.subs[:k]...), cl.subs[k+1:]...)
			last.cancel()
			vt.Label("subscriber-left")
		}
		// after every step: the register holds the model value, with the declared type
		v, err := clients[0].proxy.GetDelay()
		if err != nil {
			if staleCancelAt == i {
				return vt.Violationf(staleCancelClass, "after step %d (%s): the cancel function of a subscription which the server had ended was called while a new subscription and this call were under way, and GetDelay failed: %v", i, op.Kind, err)
			}
			return vt.Violationf("C14:get-error", "after step %d (%s %s): GetDelay failed: %v", i, op.Kind, op.Desc, err)
		}
		if v != model {
			return vt.Violationf("C14:stale-read", "after step %d (%s): GetDelay returned %d, the last accepted write is %d", i, op.Kind, v, model)
		}
		if twinGone {
			// nothing is read from an object which is gone
		} else if v2, err := clients[0].proxy2.GetDelay(); err != nil || v2 != model2 {
			return vt.Violationf("C14:stale-read", "after step %d (%s): GetDelay on the second object returned (%d, %v), its last accepted write is %d", i, op.Kind, v2, err, model2)
		}
		if err := checkEvents(i, op.Kind); err != nil {
			return err
		}
	}
	nontrivial := rejected > 0 && typed > 0 && updates > 0
	labels := []string{fmt.Sprintf("clients=%d", c.Clients)}
	if typed > 0 {
		labels = append(labels, "wrongly-typed-write")
	}
	if rejected > 0 {
		labels = append(labels, "rejected-write")
	}
	key, _ := json.Marshal(c)
	vt.Case(nontrivial, string(key), labels...)
	if nontrivial {
		vt.Sample("script", c.Ops)
	}
	return nil
}

// ---------------------------------------------------------------------------
// concurrent histories, checked for linearizability with porcupine

type ConcOp struct {
	Kind  string `json:"kind"` // get | set | setbad | update
	Value int32  `json:"value"`
}

type ConcCase struct {
	Workers [][]ConcOp `json:"workers"`
}

func genConc(t *rapid.T) ConcCase {
	var c ConcCase
	w := rapid.IntRange(2, 4).Draw(t, "workers")
	next := int32(100)
	for i := 0; i < w; i++ {
		n := rapid.IntRange(1, 7).Draw(t, "n")
		var ops []ConcOp
		for j := 0; j < n; j++ {
			op := ConcOp{Kind: rapid.SampledFrom([]string{"get", "get", "set", "set", "setbad", "update", "sets", "updates"}).Draw(t, "kind")}
			switch op.Kind {
			case "set", "update":
				next++
				op.Value = next // distinct values make the history informative
			case "setbad":
				op.Value = -int32(rapid.IntRange(1, 1000).Draw(t, "neg"))
			case "sets", "updates":
				// a burst of writes back to back (each one its own operation in the
				// history): remote writes and service-side updates overlap many times
				k := rapid.SampledFrom([]int{5, 15, 30}).Draw(t, "burst")
				kind := op.Kind[:len(op.Kind)-1]
				for b := 0; b < k; b++ {
					next++
					ops = append(ops, ConcOp{Kind: kind, Value: next})
				}
				continue
			}
			ops = append(ops, op)
		}
		c.Workers = append(c.Workers, ops)
	}
	return c
}

type regIn struct {
	write bool
	v     int32
}
type regOut struct {
	ok bool
	v  int32
}

var registerModel = porcupine.Model{
	Init: func() interface{} { return int32(10) },
	Step: func(state, input, output interface{}) (bool, interface{}) {
		in, out := input.(regIn), output.(regOut)
		if in.write {
			if in.v < 0 { // the validator rejects it: must fail, no effect
				return !out.ok, state
			}
			return out.ok, in.v
		}
		return out.ok && out.v == state.(int32), state
	},
}

func checkConc(c ConcCase) error {
	vt.Journal(prop, "TestLinearizable", "C14:process-died", c)
	defer vt.JournalDone(prop, "TestLinearizable")
	_, bomb, sid, clients, cleanup, err := setup(len(c.Workers) + 1)
	if err != nil {
		return vt.Violationf("C14:setup", "%v", err)
	}
	defer cleanup()
	// one extra client observes the change events, frame by frame on a raw
	// connection: the generated subscription pipeline sheds events when its
	// 100-message queue overflows (that is C13's business, see its known
	// finding), and bursts of writes would make this check depend on it
	obs := clients[len(c.Workers)]
	reg := binary.LittleEndian.AppendUint32(nil, 1)
	reg = binary.LittleEndian.AppendUint32(reg, 101)
	reg = binary.LittleEndian.AppendUint64(reg, 424242)
	if f, ok := obs.raw.CallWait(sid, 1, 0, reg, bound); !ok || f.Type != netkit.Reply {
		return vt.Violationf("C14:subscribe-error", "registerEvent(delay): %v", f)
	}
	events := func() []int32 {
		var out []int32
		for _, f := range obs.raw.Frames() {
			if f.Type == netkit.Event && f.Service == sid && f.Object == 1 && f.Action == 101 && len(f.Payload) == 4 {
				out = append(out, int32(binary.LittleEndian.Uint32(f.Payload)))
			}
		}
		return out
	}
	var clk int64
	var cmu sync.Mutex
	now := func() int64 { cmu.Lock(); defer cmu.Unlock(); clk++; return clk }
	var hmu sync.Mutex
	var history []porcupine.Operation
	var wg sync.WaitGroup
	var writes []int32
	overlap := false
	start := make(chan struct{})
	for wi, ops := range c.Workers {
		wg.Add(1)
		go func(wi int, ops []ConcOp) {
			defer wg.Done()
			<-start
			for _, op := range ops {
				call := now()
				var in regIn
				var out regOut
				switch op.Kind {
				case "get":
					v, err := clients[wi].proxy.GetDelay()
					in, out = regIn{}, regOut{ok: err == nil, v: v}
				case "set", "setbad":
					err := clients[wi].proxy.SetDelay(op.Value)
					in, out = regIn{write: true, v: op.Value}, regOut{ok: err == nil}
				case "update":
					err := bomb.Helper.UpdateDelay(op.Value)
					in, out = regIn{write: true, v: op.Value}, regOut{ok: err == nil}
				}
				ret := now()
				hmu.Lock()
				history = append(history, porcupine.Operation{ClientId: wi, Input: in, Call: call, Output: out, Return: ret})
				if in.write && out.ok {
					writes = append(writes, in.v)
				}
				hmu.Unlock()
			}
		}(wi, ops)
	}
	// Meanwhile other subscribers come and go: the workers' raw connections
	// register and unregister for the change events over and over. Each write
	// carries a value of its own, so no registration may ever see one twice.
	stopChurn := make(chan struct{})
	var churn sync.WaitGroup
	for wi := range c.Workers {
		churn.Add(1)
		go func(wi int) {
			defer churn.Done()
			rc := clients[wi].raw
			for k := 0; ; k++ {
				select {
				case <-stopChurn:
					return
				default:
				}
				payload := binary.LittleEndian.AppendUint32(nil, 1)
				payload = binary.LittleEndian.AppendUint32(payload, 101)
				payload = binary.LittleEndian.AppendUint64(payload, uint64(700000+1000*wi+k%1000))
				if f, ok := rc.CallWait(sid, 1, 0, payload, bound); !ok || f.Type != netkit.Reply {
					return
				}
				time.Sleep(time.Duration(50*(k%4)) * time.Microsecond)
				if f, ok := rc.CallWait(sid, 1, 1, payload, bound); !ok || f.Type != netkit.Reply {
					return
				}
			}
		}(wi)
	}
	close(start)
	done := make(chan struct{})
	go func() { wg.Wait(); close(done) }()
	select {
	case <-done:
	case <-time.After(2 * bound):
		return vt.Violationf("C14:hang", "concurrent property operations did not finish within %v", 2*bound)
	}
	close(stopChurn)
	churn.Wait()
	for wi := range c.Workers {
		seen := map[uint64]bool{}
		for _, f := range clients[wi].raw.Frames() {
			if f.Type == netkit.Event && f.Service == sid && f.Action == 101 && len(f.Payload) == 4 {
				key := uint64(f.ID)<<32 | uint64(binary.LittleEndian.Uint32(f.Payload))
				if seen[key] {
					return vt.Violationf("C14:events:duplicate", "a subscriber which came and went while others wrote received the change event of value %d twice for one registration (message id %d)", int32(binary.LittleEndian.Uint32(f.Payload)), f.ID)
				}
				seen[key] = true
			}
		}
	}
	res := porcupine.CheckOperationsTimeout(registerModel, history, 20*time.Second)
	if res == porcupine.Illegal {
		desc := ""
		sort.Slice(history, func(i, j int) bool { return history[i].Call < history[j].Call })
		for _, h := range history {
			desc += fmt.Sprintf("\n  client %d [%d,%d] %+v -> %+v", h.ClientId, h.Call, h.Return, h.Input, h.Output)
		}
		return vt.Violationf("C14:not-linearizable", "the history of get/set/update operations is not linearizable against a validated register:%s", desc)
	}
	for i, a := range history {
		for _, b := range history[i+1:] {
			if a.Input.(regIn).write && b.Input.(regIn).write && a.Call < b.Return && b.Call < a.Return {
				overlap = true
			}
		}
	}
	// events: the multiset of event payloads equals the multiset of accepted writes
	// every event was written to the observer's connection before the answer
	// to a call made after the last write
	if f, ok := obs.raw.CallWait(sid, 1, 2, []byte{1, 0, 0, 0}, bound); !ok || f.Type != netkit.Reply {
		return vt.Violationf("C14:get-error", "barrier: %v", f)
	}
	deadline := time.Now().Add(bound)
	for len(events()) < len(writes) && time.Now().Before(deadline) {
		time.Sleep(100 * time.Microsecond)
	}
	got := events()
	a, b := append([]int32{}, got...), append([]int32{}, writes...)
	sort.Slice(a, func(i, j int) bool { return a[i] < a[j] })
	sort.Slice(b, func(i, j int) bool { return b[i] < b[j] })
	if fmt.Sprint(a) != fmt.Sprint(b) {
		return vt.Violationf("C14:events", "change events %v do not match the accepted writes %v (one event per accepted write)", got, writes)
	}
	key, _ := json.Marshal(c)
	vt.Case(overlap, "conc"+string(key), "mode=concurrent", fmt.Sprintf("workers=%d", len(c.Workers)))
	if overlap {
		vt.Sample("history", fmt.Sprintf("%d operations, %d accepted writes", len(history), len(writes)))
	}
	return nil
}

func TestRegister(t *testing.T)     { vt.Run(t, prop, "TestRegister", genCase, checkCase) }
func TestLinearizable(t *testing.T) { vt.Run(t, prop, "TestLinearizable", genConc, checkConc) }

func TestReplay(t *testing.T) {
	vt.Replay(t, map[string]func(json.RawMessage) error{"TestRegister": vt.Decode(checkCase), "TestLinearizable": vt.Decode(checkConc), "TestCreated": vt.Decode(checkCreated), "TestSeveralProperties": vt.Decode(checkSeveral)})
}
