// Package netkit sets up real servers (directory + probe services) on unix
// sockets and provides a raw-frame client that shares nothing with the
// library's client side: it writes frames built by a reference header encoder
// and reads frames back in arrival order.
package netkit

import (
	"github.com/ftrvxmtrx/fd"
	"strings"
	"crypto/tls"
	"bytes"
	"encoding/binary"
	"errors"
	"fmt"
	"io"
	gonet "net"
	"os"
	"path/filepath"
	"sync"
	"sync/atomic"
	"time"

	"github.com/lugu/qiloop/bus"
	"github.com/lugu/qiloop/bus/directory"
	"github.com/lugu/qiloop/bus/session"
	"verif/harness/probe"
	"verif/harness/ref"
)

// DropLog is a sink for the library's log output which counts the messages it
// reports as dropped because the queue of their consumer was full
// ("message dropped: consumer blocked", endPoint.dispatch).
type DropLog struct{ n int64 }

func (d *DropLog) Write(p []byte) (int, error) {
	if bytes.Contains(p, []byte("consumer blocked")) {
		atomic.AddInt64(&d.n, 1)
	}
	return len(p), nil
}

// Count returns the number of dropped messages reported so far.
func (d *DropLog) Count() int64 { return atomic.LoadInt64(&d.n) }

// Message types (documented values).
const (
	Call       = 1
	Reply      = 2
	Error      = 3
	Post       = 4
	Event      = 5
	Capability = 6
	Cancel     = 7
	Cancelled  = 8
)

// Frame is one message on the wire.
type Frame struct {
	Type    uint8
	Flags   uint8
	ID      uint32
	Service uint32
	Object  uint32
	Action  uint32
	Payload []byte
}

// Encode builds the wire bytes with the reference header layout.
func (f Frame) Encode() []byte {
	h := make([]byte, 28, 28+len(f.Payload))
	binary.BigEndian.PutUint32(h[0:], 0x42dead42)
	binary.LittleEndian.PutUint32(h[4:], f.ID)
	binary.LittleEndian.PutUint32(h[8:], uint32(len(f.Payload)))
	h[14] = f.Type
	h[15] = f.Flags
	binary.LittleEndian.PutUint32(h[16:], f.Service)
	binary.LittleEndian.PutUint32(h[20:], f.Object)
	binary.LittleEndian.PutUint32(h[24:], f.Action)
	return append(h, f.Payload...)
}

func (f Frame) String() string {
	return fmt.Sprintf("{type %d id %d svc %d obj %d act %d len %d}", f.Type, f.ID, f.Service, f.Object, f.Action, len(f.Payload))
}

// RawClient is a connection driven frame by frame.
type RawClient struct {
	conn   gonet.Conn
	mu     sync.Mutex
	frames []Frame
	cond   *sync.Cond
	eof    bool
	rerr   error
	nextID uint32
}

// DialConn opens a plain connection to unix://path, tcp://host:port or
// tcps://host:port (TLS, any certificate accepted).
func DialConn(addr string) (gonet.Conn, error) {
	switch {
	case strings.HasPrefix(addr, "unix://"):
		return gonet.Dial("unix", addr[7:])
	case strings.HasPrefix(addr, "tcp://"):
		return gonet.Dial("tcp", addr[6:])
	case strings.HasPrefix(addr, "tcps://"):
		return tls.Dial("tcp", addr[7:], &tls.Config{InsecureSkipVerify: true})
	case strings.HasPrefix(addr, "pipe://"):
		return dialPipe(addr[7:])
	}
	return nil, fmt.Errorf("netkit: unsupported address %q", addr)
}

// pipeConn is the client side of the pipe:// transport: a unix socket over
// which the two ends hand each other one end of a pipe, then talk through the
// pipes.
type pipeConn struct {
	*gonet.UnixConn
	r, w *os.File
}

func (p *pipeConn) Read(b []byte) (int, error)         { return p.r.Read(b) }
func (p *pipeConn) Write(b []byte) (int, error)        { return p.w.Write(b) }
func (p *pipeConn) SetWriteDeadline(t time.Time) error { return p.w.SetWriteDeadline(t) }
func (p *pipeConn) Close() error {
	p.r.Close()
	p.w.Close()
	return p.UnixConn.Close()
}

func dialPipe(name string) (gonet.Conn, error) {
	conn, err := gonet.DialUnix("unix", nil, &gonet.UnixAddr{Name: name, Net: "unix"})
	if err != nil {
		return nil, err
	}
	r, w, err := os.Pipe()
	if err != nil {
		return nil, err
	}
	if err = fd.Put(conn, r); err != nil {
		return nil, err
	}
	fds, err := fd.Get(conn, 1, nil)
	if err != nil || len(fds) != 1 {
		return nil, fmt.Errorf("netkit: pipe transport: no descriptor received: %v", err)
	}
	return &pipeConn{UnixConn: conn, r: fds[0], w: w}, nil
}

// DialBare opens the connection underneath the transport: for tcps:// a TCP
// connection on which no TLS handshake has taken place.
func DialBare(addr string) (gonet.Conn, error) {
	if strings.HasPrefix(addr, "tcps://") {
		return gonet.Dial("tcp", addr[7:])
	}
	return DialConn(addr)
}

// Dial connects to unix://path, tcp://host:port or tcps://host:port.
func Dial(addr string) (*RawClient, error) {
	conn, err := DialConn(addr)
	if err != nil {
		return nil, err
	}
	c := &RawClient{conn: conn, nextID: 1000}
	c.cond = sync.NewCond(&c.mu)
	go c.readLoop()
	return c, nil
}

func (c *RawClient) readLoop() {
	for {
		h := make([]byte, 28)
		if _, err := io.ReadFull(c.conn, h); err != nil {
			c.mu.Lock()
			c.eof = true
			c.rerr = err
			c.cond.Broadcast()
			c.mu.Unlock()
			return
		}
		size := binary.LittleEndian.Uint32(h[8:])
		f := Frame{Type: h[14], Flags: h[15], ID: binary.LittleEndian.Uint32(h[4:]),
			Service: binary.LittleEndian.Uint32(h[16:]), Object: binary.LittleEndian.Uint32(h[20:]), Action: binary.LittleEndian.Uint32(h[24:])}
		if size > 64<<20 {
			c.mu.Lock()
			c.eof = true
			c.rerr = errors.New("netkit: oversized frame from server")
			c.cond.Broadcast()
			c.mu.Unlock()
			return
		}
		f.Payload = make([]byte, size)
		if _, err := io.ReadFull(c.conn, f.Payload); err != nil {
			c.mu.Lock()
			c.eof = true
			c.rerr = err
			c.cond.Broadcast()
			c.mu.Unlock()
			return
		}
		c.mu.Lock()
		c.frames = append(c.frames, f)
		c.cond.Broadcast()
		c.mu.Unlock()
	}
}

// NextID returns a fresh message id.
func (c *RawClient) NextID() uint32 {
	c.mu.Lock()
	defer c.mu.Unlock()
	c.nextID += 2
	return c.nextID
}

// Send writes one frame.
func (c *RawClient) Send(f Frame) error {
	// a server that stopped reading must not wedge the harness
	c.conn.SetWriteDeadline(time.Now().Add(5 * time.Second))
	_, err := c.conn.Write(f.Encode())
	return err
}

// SendRaw writes arbitrary bytes.
func (c *RawClient) SendRaw(b []byte) error {
	c.conn.SetWriteDeadline(time.Now().Add(5 * time.Second))
	_, err := c.conn.Write(b)
	return err
}

// Close closes the connection.
func (c *RawClient) Close() { c.conn.Close() }

// CloseRead shuts down the reading side of the connection (unix and tcp): the
// client hears nothing any more and what the server writes to it fails, while
// the connection stays open for what the client sends. It reports whether the
// transport can do that.
func (c *RawClient) CloseRead() bool {
	if h, ok := c.conn.(interface{ CloseRead() error }); ok {
		return h.CloseRead() == nil
	}
	return false
}

// Frames returns a snapshot of everything received so far.
func (c *RawClient) Frames() []Frame {
	c.mu.Lock()
	defer c.mu.Unlock()
	return append([]Frame{}, c.frames...)
}

// EOF reports whether the server closed the connection.
func (c *RawClient) EOF() bool {
	c.mu.Lock()
	defer c.mu.Unlock()
	return c.eof
}

// WaitFrame waits for a frame satisfying pred among the frames received from
// index `from` on; it returns the frame and its index.
func (c *RawClient) WaitFrame(from int, pred func(Frame) bool, timeout time.Duration) (Frame, int, bool) {
	deadline := time.Now().Add(timeout)
	c.mu.Lock()
	defer c.mu.Unlock()
	i := from
	for {
		for ; i < len(c.frames); i++ {
			if pred(c.frames[i]) {
				return c.frames[i], i, true
			}
		}
		if c.eof || time.Now().After(deadline) {
			return Frame{}, -1, false
		}
		t := time.AfterFunc(20*time.Millisecond, func() { c.cond.Broadcast() })
		c.cond.Wait()
		t.Stop()
	}
}

// WaitEOF waits until the server closes the connection.
func (c *RawClient) WaitEOF(timeout time.Duration) bool {
	deadline := time.Now().Add(timeout)
	c.mu.Lock()
	defer c.mu.Unlock()
	for !c.eof {
		if time.Now().After(deadline) {
			return false
		}
		t := time.AfterFunc(20*time.Millisecond, func() { c.cond.Broadcast() })
		c.cond.Wait()
		t.Stop()
	}
	return true
}

// CallWait sends a call and waits for the reply or error with the same id.
func (c *RawClient) CallWait(service, object, action uint32, payload []byte, timeout time.Duration) (Frame, bool) {
	id := c.NextID()
	from := len(c.Frames())
	if err := c.Send(Frame{Type: Call, ID: id, Service: service, Object: object, Action: action, Payload: payload}); err != nil {
		return Frame{}, false
	}
	f, _, ok := c.WaitFrame(from, func(f Frame) bool { return f.ID == id && (f.Type == Reply || f.Type == Error) }, timeout)
	return f, ok
}

// CapMap is the abstract capability map: string -> dynamic value.
func CapMap(entries map[string]ref.Dyn) []byte {
	m := ref.Map{}
	// deterministic order
	keys := make([]string, 0, len(entries))
	for k := range entries {
		keys = append(keys, k)
	}
	sortStrings(keys)
	for _, k := range keys {
		m = append(m, ref.KV{K: k, V: entries[k]})
	}
	ty, _ := ref.ParseSig("{sm}")
	return ref.Encode(ty, m)
}

func sortStrings(s []string) {
	for i := 1; i < len(s); i++ {
		for j := i; j > 0 && s[j] < s[j-1]; j-- {
			s[j], s[j-1] = s[j-1], s[j]
		}
	}
}

// Str builds a string dynamic value.
func Str(s string) ref.Dyn { return ref.Dyn{T: ref.Scalar(ref.KString), V: s} }

// Authenticate performs the documented authenticate exchange and reports
// whether the server answered with state "done" (3).
func (c *RawClient) Authenticate(user, token string, timeout time.Duration) bool {
	entries := map[string]ref.Dyn{"ClientServerSocket": {T: ref.Scalar(ref.KBool), V: true}}
	if user != "" {
		entries["auth_user"] = Str(user)
	}
	if token != "" {
		entries["auth_token"] = Str(token)
	}
	f, ok := c.CallWait(0, 0, 8, CapMap(entries), timeout)
	if !ok || f.Type != Reply {
		return false
	}
	return AuthDone(f.Payload)
}

// AuthDone decodes a capability map reply and reports state == 3.
func AuthDone(payload []byte) bool {
	ty, _ := ref.ParseSig("{sm}")
	v, _, err := ref.Decode(ty, payload)
	if err != nil {
		return false
	}
	for _, kv := range v.(ref.Map) {
		if kv.K.(string) == "__qi_auth_state" {
			d := kv.V.(ref.Dyn)
			switch x := d.V.(type) {
			case uint32:
				return x == 3
			case int32:
				return x == 3
			}
		}
	}
	return false
}

// StringPayload encodes one string argument.
func StringPayload(s string) []byte { return ref.Encode(ref.Scalar(ref.KString), s) }

// DecodeString decodes a string reply.
func DecodeString(b []byte) (string, bool) {
	v, n, err := ref.Decode(ref.Scalar(ref.KString), b)
	if err != nil || n != len(b) {
		return "", false
	}
	return v.(string), true
}

// ErrorText decodes the text of an error frame (a dynamic string).
func ErrorText(b []byte) string {
	v, _, err := ref.Decode(ref.Scalar(ref.KValue), b)
	if err != nil {
		return ""
	}
	if s, ok := v.(ref.Dyn).V.(string); ok {
		return s
	}
	return ""
}

// ---------------------------------------------------------------------------

// Env is a running directory server with probe services.
type Env struct {
	Dir     string
	Addr    string
	Server  bus.Server
	Journal *probe.Journal
	closed  bool
}

// StartServer starts a directory server on a fresh unix socket.
func StartServer(auth bus.Authenticator) (*Env, error) { return StartServerOn("unix", auth) }

// StartServerOn starts a directory server listening on a transport of the
// given kind: unix (a socket in a scratch directory), tcp or tcps (a free port
// of the loopback interface).
func StartServerOn(transport string, auth bus.Authenticator) (*Env, error) {
	dir, err := os.MkdirTemp("", "vsrv")
	if err != nil {
		return nil, err
	}
	addr := "unix://" + filepath.Join(dir, "s")
	if transport == "pipe" {
		addr = "pipe://" + filepath.Join(dir, "p")
	}
	if transport == "tcp" || transport == "tcps" {
		l, err := gonet.Listen("tcp", "127.0.0.1:0")
		if err != nil {
			os.RemoveAll(dir)
			return nil, err
		}
		addr = transport + "://" + l.Addr().String()
		l.Close()
	}
	srv, err := directory.NewServer(addr, auth)
	if err != nil {
		os.RemoveAll(dir)
		return nil, err
	}
	return &Env{Dir: dir, Addr: addr, Server: srv, Journal: &probe.Journal{}}, nil
}

// Close stops the server and removes its socket.
func (e *Env) Close() {
	if e.closed {
		return
	}
	e.closed = true
	// Terminate can block for ever when an object of the server is wedged
	// (which is what some checks are looking for): do not wedge the harness.
	done := make(chan struct{})
	go func() { e.Server.Terminate(); close(done) }()
	select {
	case <-done:
	case <-time.After(3 * time.Second):
	}
	os.RemoveAll(e.Dir)
}

// AddPong registers a pong probe as a new service.
func (e *Env) AddPong(name string) (bus.Service, *probe.Pong, error) {
	p, actor := probe.NewPong(name, e.Journal)
	svc, err := e.Server.NewService(name, actor)
	return svc, p, err
}

// AddPongObject adds a pong probe object to an existing service.
func (e *Env) AddPongObject(svc bus.Service, name string) (uint32, *probe.Pong, error) {
	p, actor := probe.NewPong(name, e.Journal)
	id, err := svc.Add(actor)
	return id, p, err
}

// Session opens a new client session (its own connection).
func (e *Env) Session() (bus.Session, error) {
	return session.NewSession(e.Addr)
}
