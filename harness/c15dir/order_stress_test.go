package c15dir

import (
	"fmt"
	"os"
	"testing"
)

// TestOrderStress measures how often each configuration of TestEventOrder
// exposes an ordering violation (development aid: VERIF_STRESS=1).
func TestOrderStress(t *testing.T) {
	if os.Getenv("VERIF_STRESS") == "" {
		t.Skip("development aid")
	}
	for _, c := range []OrderCase{
		{Observers: 1, Snipers: 1, Rounds: 20, Spinners: 0},
		{Observers: 1, Snipers: 1, Rounds: 20, SlowRegs: 10, ThrottleUS: 20},
		{Observers: 1, Snipers: 1, Rounds: 20, SlowRegs: 40, ThrottleUS: 20},
		{Observers: 1, Snipers: 1, Rounds: 20, SlowRegs: 100, ThrottleUS: 20},
		{Observers: 2, Snipers: 2, Rounds: 20, SlowRegs: 40, ThrottleUS: 100},
		{Observers: 4, Snipers: 3, Rounds: 20, SlowRegs: 100, ThrottleUS: 100},
	} {
		fails := 0
		for i := 0; i < 20; i++ {
			if err := checkOrder(c); err != nil {
				fails++
			}
		}
		fmt.Printf("STRESS %+v: %d/20\n", c, fails)
	}
}
