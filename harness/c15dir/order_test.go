package c15dir

// Event order under foreign unregistration: a goroutine on the local path
// brings services up (Server.NewService) while remote clients unregister every
// service they can see. Whatever the schedule, each observer must be told
// "added" before "removed" for an id, once each: the events follow the
// transitions. Busy goroutines and many observers stretch the emission.

import (
	"encoding/binary"
	"encoding/json"
	"fmt"
	"io"
	gonet "net"
	"sync"
	"sync/atomic"
	"testing"
	"time"

	"pgregory.net/rapid"
	"verif/harness/netkit"
	"verif/harness/probe"
	"verif/harness/ref"
	"verif/harness/vt"
)

type OrderCase struct {
	Observers int `json:"observers"`
	Snipers   int `json:"snipers"`
	Rounds    int `json:"rounds"`
	Spinners  int `json:"spinners"`
	// a subscriber of serviceAdded only, registered SlowRegs times before the
	// observers, which reads one frame every ThrottleUS microseconds: once the
	// socket buffers are full the emitter advances at that pace
	SlowRegs   int `json:"slowregs,omitempty"`
	ThrottleUS int `json:"throttle_us,omitempty"`
	// Blind: the snipers also unregister the identifiers which come next (not
	// listed yet: a service whose registration is still under way), and the
	// activation of the local services takes ActivateUS microseconds
	Blind      bool `json:"blind,omitempty"`
	ActivateUS int  `json:"activate_us,omitempty"`
	// Broken: a subscriber of both signals registered ahead of the observers
	// whose reading side is shut down (what the directory writes to it fails);
	// Churners: connections which register for serviceAdded and unregister again,
	// over and over, while the services come and go
	Broken   bool `json:"broken,omitempty"`
	Churners int  `json:"churners,omitempty"`
}

func genOrder(t *rapid.T) OrderCase {
	return OrderCase{
		Observers:  rapid.IntRange(1, 8).Draw(t, "observers"),
		Snipers:    rapid.IntRange(1, 3).Draw(t, "snipers"),
		Rounds:     rapid.IntRange(3, 25).Draw(t, "rounds"),
		Spinners:   rapid.SampledFrom([]int{0, 0, 0, 1, 2}).Draw(t, "spinners"),
		SlowRegs:   rapid.SampledFrom([]int{0, 20, 40, 40, 100}).Draw(t, "slowregs"),
		ThrottleUS: rapid.SampledFrom([]int{5, 20, 50}).Draw(t, "throttle"),
		Blind:      rapid.Bool().Draw(t, "blind"),
		ActivateUS: rapid.SampledFrom([]int{0, 0, 200, 1000, 3000}).Draw(t, "activate"),
		Broken:     rapid.IntRange(0, 2).Draw(t, "broken") == 0,
		Churners:   rapid.SampledFrom([]int{0, 0, 1, 3}).Draw(t, "churners"),
	}
}

var infoListType, _ = ref.ParseSig("[(sIsI[s]ss)<ServiceInfo,name,serviceId,machineId,processId,endpoints,sessionId,objectUid>]")

func checkOrder(c OrderCase) error {
	vt.Journal(prop, "TestEventOrder", "C15:order:process-died", c)
	defer vt.JournalDone(prop, "TestEventOrder")
	w, closeWorld, err := newWorld(0)
	if err != nil {
		return vt.Violationf("C15:setup", "world: %v", err)
	}
	defer closeWorld()
	var slowSub *slowSubscriber
	if c.SlowRegs > 0 {
		slow, err := newSlowSubscriber(w.env.Addr, c.SlowRegs)
		if err != nil {
			return vt.Violationf("C15:setup", "slow subscriber: %v", err)
		}
		defer slow.close()
		slow.throttle(time.Duration(c.ThrottleUS) * time.Microsecond)
		defer slow.throttle(0)
		slowSub = slow
	}
	if c.Broken {
		bo, closeB, err := newObserver(w)
		if err != nil {
			return vt.Violationf("C15:setup", "observer: %v", err)
		}
		defer closeB()
		if bo.raw.CloseRead() {
			vt.Label("subscriber-with-a-broken-connection-ahead-of-the-observers")
		}
	}
	var observers []*observer
	for i := 0; i < c.Observers; i++ {
		o, closeObs, err := newObserver(w)
		if err != nil {
			return vt.Violationf("C15:setup", "observer: %v", err)
		}
		defer closeObs()
		observers = append(observers, o)
	}
	stop := make(chan struct{})
	var wg sync.WaitGroup
	for i := 0; i < c.Spinners; i++ {
		wg.Add(1)
		go func() {
			defer wg.Done()
			x := 0
			for {
				select {
				case <-stop:
					return
				default:
				}
				for k := 0; k < 2000; k++ {
					x += k
				}
				_ = x
			}
		}()
	}
	var sniped, blind, gaveUp int32
	var churners []*netkit.RawClient
	for i := 0; i < c.Churners; i++ {
		raw, err := netkit.Dial(w.env.Addr)
		if err != nil || !raw.Authenticate("u", "t", bound) {
			close(stop)
			wg.Wait()
			return vt.Violationf("C15:setup", "churner: %v", err)
		}
		defer raw.Close()
		churners = append(churners, raw)
		wg.Add(1)
		go func() {
			defer wg.Done()
			for {
				select {
				case <-stop:
					return
				default:
				}
				reg := regPayload(1, 106, atomic.AddUint64(&observerIDs, 1))
				if f, ok := raw.CallWait(1, 1, 0, reg, bound); ok && f.Type == netkit.Reply {
					raw.CallWait(1, 1, 1, reg, bound)
				}
			}
		}()
	}
	var setupErr atomic.Value
	for i := 0; i < c.Snipers; i++ {
		raw, err := netkit.Dial(w.env.Addr)
		if err != nil || !raw.Authenticate("u", "t", bound) {
			close(stop)
			wg.Wait()
			return vt.Violationf("C15:setup", "sniper: %v", err)
		}
		defer raw.Close()
		wg.Add(1)
		go func() {
			defer wg.Done()
			guess := uint32(2)
			for {
				select {
				case <-stop:
					return
				default:
				}
				if c.Blind {
					for k := uint32(0); k < 3; k++ {
						r, ok := raw.CallWait(1, 1, 103, binary.LittleEndian.AppendUint32(nil, guess+k), bound)
						if ok && r.Type == netkit.Reply {
							atomic.AddInt32(&sniped, 1)
							atomic.AddInt32(&blind, 1)
							guess += k + 1
							break
						}
					}
				}
				f, ok := raw.CallWait(1, 1, 101, nil, 3*bound)
				if !ok {
					// no answer yet: the directory's actor is busy writing to the
					// throttled subscriber (the harness's own brake, which a loaded
					// machine makes much slower); this sniper leaves, the local path
					// and the observers are judged as before
					atomic.AddInt32(&gaveUp, 1)
					return
				}
				if f.Type != netkit.Reply {
					setupErr.Store(fmt.Sprintf("services() failed: %v", f))
					return
				}
				v, _, err := ref.Decode(infoListType, f.Payload)
				if err != nil {
					setupErr.Store(fmt.Sprintf("services() reply: %v", err))
					return
				}
				for _, e := range v.(ref.List) {
					id := e.(ref.Tuple)[1].(uint32)
					if id <= 1 {
						continue
					}
					if id >= guess {
						guess = id + 1
					}
					r, ok := raw.CallWait(1, 1, 103, binary.LittleEndian.AppendUint32(nil, id), bound)
					if ok && r.Type == netkit.Reply {
						atomic.AddInt32(&sniped, 1)
					}
				}
			}
		}()
	}
	// the local path
	created := 0
	for r := 0; r < c.Rounds; r++ {
		pp, actor := probe.NewPong(fmt.Sprintf("L%d", r), w.env.Journal)
		pp.ActivateDelay = time.Duration(c.ActivateUS) * time.Microsecond
		svc, err := w.env.Server.NewService(fmt.Sprintf("L%d", r), actor)
		if err != nil {
			continue
		}
		created++
		if r%2 == 1 {
			svc.Terminate() // it may be gone already: no judgement on the result
		}
	}
	close(stop)
	wg.Wait()
	if e := setupErr.Load(); e != nil {
		return vt.Violationf("C15:order:sniper", "%v", e)
	}
	// (the slow subscriber keeps reading at its pace until the sweep is over)
	// sweep: everything left is unregistered from one connection
	sweep, err := netkit.Dial(w.env.Addr)
	if err != nil || !sweep.Authenticate("u", "t", bound) {
		return vt.Violationf("C15:setup", "sweeper: %v", err)
	}
	defer sweep.Close()
	if f, ok := sweep.CallWait(1, 1, 101, nil, bound); ok && f.Type == netkit.Reply {
		if v, _, err := ref.Decode(infoListType, f.Payload); err == nil {
			for _, e := range v.(ref.List) {
				if id := e.(ref.Tuple)[1].(uint32); id > 1 {
					sweep.CallWait(1, 1, 103, binary.LittleEndian.AppendUint32(nil, id), bound)
				}
			}
		}
	}
	// the subscribers which came and went: none of their registrations (an event
	// frame carries the identifier of the registration's call) was told twice
	// that the same service had been added
	for ci, raw := range churners {
		seen := map[[2]uint32]bool{}
		for _, f := range raw.Frames() {
			if f.Type != netkit.Event || f.Service != 1 || f.Action != 106 {
				continue
			}
			v, _, err := ref.Decode(eventType, f.Payload)
			if err != nil {
				continue
			}
			k := [2]uint32{f.ID, v.(ref.Tuple)[0].(uint32)}
			if seen[k] {
				return vt.Violationf("C15:order:duplicate-event", "a subscriber which registers and unregisters over and over (%d of %d) was told twice, through the same registration, that service %d had been added", ci, len(churners), k[1])
			}
			seen[k] = true
		}
	}
	// everything has been registered and unregistered: the brake is released
	// (what is still to be emitted is emitted at full speed) before the harness
	// starts to wait for the observers' events
	if slowSub != nil {
		slowSub.throttle(0)
	}
	// every observer: per id, exactly added then removed
	for oi, o := range observers {
		var events []transition
		deadline := time.Now().Add(bound)
		for {
			events = o.wait(0)
			open := map[uint32]int{}
			for _, e := range events {
				if e.added {
					open[e.id]++
				} else {
					open[e.id]--
				}
			}
			pending := false
			for _, n := range open {
				if n > 0 {
					pending = true
				}
			}
			if !pending || time.Now().After(deadline) {
				break
			}
			time.Sleep(200 * time.Microsecond)
		}
		state := map[uint32]string{}
		for k, e := range events {
			switch {
			case e.name == "undecodable event":
				return vt.Violationf("C15:order:undecodable-event", "observer %d: event %d cannot be decoded", oi, k)
			case e.added && state[e.id] == "":
				state[e.id] = "added"
			case !e.added && state[e.id] == "added":
				state[e.id] = "removed"
			case !e.added && state[e.id] == "":
				return vt.Violationf("C15:order:removed-before-added", "observer %d of %d: serviceRemoved(%d,%q) arrived before any serviceAdded for that id; events: %v", oi, c.Observers, e.id, e.name, short(events))
			default:
				return vt.Violationf("C15:order:duplicate-event", "observer %d of %d: event %d (added=%v id=%d) repeats a transition; events: %v", oi, c.Observers, k, e.added, e.id, short(events))
			}
		}
		for id, st := range state {
			if st != "removed" {
				return vt.Violationf("C15:order:missing-removed", "observer %d of %d: service %d was announced but its removal never was (%v after the last unregister); events: %v", oi, c.Observers, id, bound, short(events))
			}
		}
		if len(state) < created {
			return vt.Violationf("C15:order:missing-added", "observer %d of %d saw %d services come and go, the local path created %d; events: %v", oi, c.Observers, len(state), created, short(events))
		}
	}
	nontrivial := atomic.LoadInt32(&sniped) > 0 && created >= 2
	key, _ := json.Marshal(c)
	vt.Case(nontrivial, "order"+string(key), "mode=event-order", fmt.Sprintf("observers=%d", c.Observers), fmt.Sprintf("spinners=%d", c.Spinners), fmt.Sprintf("slow-subscriber-registrations=%d", c.SlowRegs), fmt.Sprintf("churning-subscribers=%d", c.Churners))
	vt.LabelN("foreign-unregistrations", int64(atomic.LoadInt32(&sniped)))
	if n := atomic.LoadInt32(&gaveUp); n > 0 {
		vt.LabelN("snipers-which-left-unanswered(not-judged)", int64(n))
	}
	vt.LabelN("foreign-unregistrations-of-identifiers-not-listed", int64(atomic.LoadInt32(&blind)))
	if nontrivial {
		vt.Sample("event-order", c)
	}
	return nil
}

func short(ev []transition) string {
	s := ""
	for i, e := range ev {
		if i > 60 {
			s += " ..."
			break
		}
		if e.added {
			s += fmt.Sprintf(" +%d", e.id)
		} else {
			s += fmt.Sprintf(" -%d", e.id)
		}
	}
	return s
}

func TestEventOrder(t *testing.T) { vt.Run(t, prop, "TestEventOrder", genOrder, checkOrder) }

// slowSubscriber is a connection registered n times to serviceAdded which
// reads its frames at a chosen pace.
type slowSubscriber struct {
	conn  gonet.Conn
	pace  int64 // nanoseconds between two frames
	acks  chan struct{}
	done  chan struct{}
	close func()
}

func (s *slowSubscriber) throttle(d time.Duration) { atomic.StoreInt64(&s.pace, int64(d)) }

func newSlowSubscriber(addr string, n int) (*slowSubscriber, error) {
	conn, err := gonet.Dial("unix", addr[7:])
	if err != nil {
		return nil, err
	}
	s := &slowSubscriber{conn: conn, acks: make(chan struct{}, n+1), done: make(chan struct{})}
	s.close = func() { conn.Close(); <-s.done }
	go func() {
		defer close(s.done)
		hdr := make([]byte, 28)
		for {
			if _, err := io.ReadFull(conn, hdr); err != nil {
				return
			}
			size := binary.LittleEndian.Uint32(hdr[8:])
			if size > 1<<20 {
				return
			}
			if _, err := io.CopyN(io.Discard, conn, int64(size)); err != nil {
				return
			}
			if hdr[14] == netkit.Reply || hdr[14] == netkit.Error {
				select {
				case s.acks <- struct{}{}:
				default:
				}
			}
			if d := atomic.LoadInt64(&s.pace); d > 0 {
				time.Sleep(time.Duration(d))
			}
		}
	}()
	wait := func() error {
		select {
		case <-s.acks:
			return nil
		case <-time.After(bound):
			return fmt.Errorf("no answer")
		}
	}
	auth := netkit.Frame{Type: netkit.Call, ID: 3, Service: 0, Object: 0, Action: 8,
		Payload: netkit.CapMap(map[string]ref.Dyn{"auth_user": netkit.Str("u"), "auth_token": netkit.Str("t")})}
	if _, err := conn.Write(auth.Encode()); err != nil {
		s.close()
		return nil, err
	}
	if err := wait(); err != nil {
		s.close()
		return nil, err
	}
	for i := 0; i < n; i++ {
		f := netkit.Frame{Type: netkit.Call, ID: uint32(10 + 2*i), Service: 1, Object: 1, Action: 0, Payload: regPayload(1, 106, atomic.AddUint64(&observerIDs, 1))}
		if _, err := conn.Write(f.Encode()); err != nil {
			s.close()
			return nil, err
		}
		if err := wait(); err != nil {
			s.close()
			return nil, err
		}
	}
	return s, nil
}
