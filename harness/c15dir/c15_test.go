// Package c15dir decides C15: the service directory is a linearizable
// registry.
package c15dir

import (
	"encoding/binary"
	"encoding/json"
	"fmt"
	"io"
	"log"
	"sort"
	"strings"
	"sync"
	"sync/atomic"
	"testing"
	"time"

	"github.com/anishathalye/porcupine"
	"github.com/lugu/qiloop/bus"
	"github.com/lugu/qiloop/bus/services"
	"github.com/lugu/qiloop/bus/session"
	"pgregory.net/rapid"
	"verif/harness/netkit"
	"verif/harness/probe"
	"verif/harness/ref"
	"verif/harness/vt"
)

const prop = "C15"

func TestMain(m *testing.M) {
	log.SetOutput(io.Discard)
	vt.Main(m)
}

// ---------------------------------------------------------------------------
// the sequential reference model of the registry

type entry struct {
	id    uint32
	name  string
	tag   string // SessionId of the info: changed by updates
	ready bool
}

type model struct {
	last    uint32
	entries []entry // sorted by id
}

func (m model) find(id uint32) int {
	for i, e := range m.entries {
		if e.id == id {
			return i
		}
	}
	return -1
}

func (m model) byName(name string) int {
	for i, e := range m.entries {
		if e.name == name {
			return i
		}
	}
	return -1
}

func (m model) clone() model {
	return model{last: m.last, entries: append([]entry{}, m.entries...)}
}

func (m model) key() string {
	var sb strings.Builder
	fmt.Fprintf(&sb, "%d|", m.last)
	for _, e := range m.entries {
		fmt.Fprintf(&sb, "%d:%s:%s:%v,", e.id, e.name, e.tag, e.ready)
	}
	return sb.String()
}

// In is an operation of the registry; Out its result.
type In struct {
	Op    string `json:"op"` // register | ready | unregister | update | service | services
	Name  string `json:"name,omitempty"`
	ID    uint32 `json:"id,omitempty"`
	Tag   string `json:"tag,omitempty"`
	Valid bool   `json:"valid,omitempty"` // register/update: the info is well formed
}

type Out struct {
	OK   bool
	ID   uint32
	Tag  string
	List string // services: "id:name:tag," sorted by id
}

type transition struct {
	added bool
	id    uint32
	name  string
}

// step applies one operation to the model; it returns the new model, whether
// the observed output is possible, and the event the operation must emit.
func step(m model, in In, out Out) (model, bool, *transition) {
	switch in.Op {
	case "register":
		if !in.Valid || m.byName(in.Name) >= 0 {
			return m, !out.OK, nil
		}
		if !out.OK || out.ID != m.last+1 { // strictly increasing, never reused
			return m, false, nil
		}
		n := m.clone()
		n.last++
		n.entries = append(n.entries, entry{id: n.last, name: in.Name, tag: in.Tag})
		return n, true, nil
	case "ready":
		i := m.find(in.ID)
		if i < 0 || m.entries[i].ready {
			return m, !out.OK, nil
		}
		if !out.OK {
			return m, false, nil
		}
		n := m.clone()
		n.entries[i].ready = true
		return n, true, &transition{added: true, id: in.ID, name: n.entries[i].name}
	case "unregister":
		i := m.find(in.ID)
		if i < 0 {
			return m, !out.OK, nil
		}
		if !out.OK {
			return m, false, nil
		}
		n := m.clone()
		e := n.entries[i]
		n.entries = append(n.entries[:i:i], n.entries[i+1:]...)
		if e.ready {
			return n, true, &transition{added: false, id: e.id, name: e.name}
		}
		return n, true, nil
	case "update":
		i := m.find(in.ID)
		if !in.Valid || i < 0 || !m.entries[i].ready || m.entries[i].name != in.Name {
			return m, !out.OK, nil
		}
		if !out.OK {
			return m, false, nil
		}
		n := m.clone()
		n.entries[i].tag = in.Tag
		return n, true, nil
	case "service":
		i := m.byName(in.Name)
		if i < 0 || !m.entries[i].ready {
			return m, !out.OK, nil
		}
		e := m.entries[i]
		return m, out.OK && out.ID == e.id && out.Tag == e.tag, nil
	case "services":
		want := ""
		for _, e := range m.entries {
			if e.ready {
				want += fmt.Sprintf("%d:%s:%s,", e.id, e.name, e.tag)
			}
		}
		return m, out.OK && out.List == want, nil
	}
	return m, false, nil
}

// initial model: the directory itself is service 1.
func initialModel() model {
	return model{last: 1, entries: []entry{{id: 1, name: "ServiceDirectory", ready: true}}}
}

// ---------------------------------------------------------------------------
// executing operations against the implementation

type world struct {
	env   *netkit.Env
	dirs  []services.ServiceDirectoryProxy // one per remote client
	local map[uint32]bus.Service           // services created through Server.NewService
	mu    sync.Mutex
}

func mkInfo(in In, machine string) services.ServiceInfo {
	info := services.ServiceInfo{Name: in.Name, ServiceId: in.ID, MachineId: machine, ProcessId: 77, Endpoints: []string{"tcp://127.0.0.1:1"}, SessionId: in.Tag}
	if !in.Valid {
		// one of the documented malformations
		switch len(in.Tag) % 3 {
		case 0:
			info.MachineId = ""
		case 1:
			info.ProcessId = 0
		default:
			info.Endpoints = nil
		}
	}
	return info
}

func listOf(infos []services.ServiceInfo) string {
	sort.Slice(infos, func(i, j int) bool { return infos[i].ServiceId < infos[j].ServiceId })
	s := ""
	for _, i := range infos {
		s += fmt.Sprintf("%d:%s:%s,", i.ServiceId, i.Name, i.SessionId)
	}
	return s
}

// remote executes an operation through a client's ServiceDirectory proxy.
func (w *world) remote(client int, in In) Out {
	d := w.dirs[client]
	switch in.Op {
	case "register":
		id, err := d.RegisterService(mkInfo(in, "m"))
		return Out{OK: err == nil, ID: id}
	case "ready":
		return Out{OK: d.ServiceReady(in.ID) == nil}
	case "unregister":
		return Out{OK: d.UnregisterService(in.ID) == nil}
	case "update":
		return Out{OK: d.UpdateServiceInfo(mkInfo(in, "m")) == nil}
	case "service":
		info, err := d.Service(in.Name)
		return Out{OK: err == nil, ID: info.ServiceId, Tag: info.SessionId}
	case "services":
		infos, err := d.Services()
		return Out{OK: err == nil, List: listOf(infos)}
	}
	return Out{}
}

func newWorld(clients int) (*world, func(), error) {
	env, err := netkit.StartServer(bus.Yes{})
	if err != nil {
		return nil, nil, err
	}
	w := &world{env: env, local: map[uint32]bus.Service{}}
	var closers []func()
	for i := 0; i < clients; i++ {
		sess, err := session.NewAuthSession(env.Addr, "u", "t")
		if err != nil {
			env.Close()
			return nil, nil, err
		}
		closers = append(closers, func() { sess.Terminate() })
		d, err := services.ServiceDirectory(sess)
		if err != nil {
			env.Close()
			return nil, nil, err
		}
		w.dirs = append(w.dirs, d)
	}
	return w, func() {
		for _, f := range closers {
			f()
		}
		env.Close()
	}, nil
}

// observer collects the serviceAdded / serviceRemoved events in the order in
// which the server wrote them to one connection: it is a raw-frame client
// registered to both signals (two generated subscriptions would each have
// their own pipeline and lose the relative order).
type observer struct {
	raw *netkit.RawClient
}

func regPayload(object, signal uint32, handler uint64) []byte {
	b := binary.LittleEndian.AppendUint32(nil, object)
	b = binary.LittleEndian.AppendUint32(b, signal)
	return binary.LittleEndian.AppendUint64(b, handler)
}

func newObserver(w *world) (*observer, func(), error) {
	raw, err := netkit.Dial(w.env.Addr)
	if err != nil {
		return nil, nil, err
	}
	if !raw.Authenticate("u", "t", bound) {
		raw.Close()
		return nil, nil, fmt.Errorf("observer authentication failed")
	}
	for _, sig := range []uint32{106, 107} {
		// registration ids are unique per object across connections (the
		// library's own client draws them at random): one counter for all observers
		f, ok := raw.CallWait(1, 1, 0, regPayload(1, sig, atomic.AddUint64(&observerIDs, 1)), bound)
		if !ok || f.Type != netkit.Reply {
			raw.Close()
			return nil, nil, fmt.Errorf("observer registerEvent(%d): %v", sig, f)
		}
	}
	return &observer{raw: raw}, raw.Close, nil
}

var observerIDs uint64 = 9000

var eventType, _ = ref.ParseSig("(Is)")

func (o *observer) snapshot() []transition {
	var out []transition
	for _, f := range o.raw.Frames() {
		if f.Type != netkit.Event || f.Service != 1 || (f.Action != 106 && f.Action != 107) {
			continue
		}
		v, _, err := ref.Decode(eventType, f.Payload)
		if err != nil {
			out = append(out, transition{name: "undecodable event"})
			continue
		}
		tu := v.(ref.Tuple)
		out = append(out, transition{added: f.Action == 106, id: tu[0].(uint32), name: tu[1].(string)})
	}
	return out
}

// wait returns the events received once a barrier call on the observer's
// connection has been answered (event frames precede the reply on the wire).
func (o *observer) wait(n int) []transition {
	o.raw.CallWait(1, 1, 101, nil, bound)
	deadline := time.Now().Add(bound)
	for len(o.snapshot()) < n && time.Now().Before(deadline) {
		time.Sleep(100 * time.Microsecond)
	}
	return o.snapshot()
}

const bound = 10 * time.Second

// ---------------------------------------------------------------------------
// sequential conformance

type SeqOp struct {
	In     In   `json:"in"`
	Client int  `json:"client"`
	Local  bool `json:"local,omitempty"` // register/unregister through Server.NewService / Service.Terminate
	Pick   int  `json:"pick"`            // choose an id among those handed out (+-1 variants)
	// Vanish: this many further subscribers of serviceAdded/serviceRemoved drop
	// their connection without a word right before the operation: what the
	// directory cannot tell them any more is no reason for the operation to fail
	Vanish int `json:"vanish,omitempty"`
}

type SeqCase struct {
	Clients int     `json:"clients"`
	Ops     []SeqOp `json:"ops"`
}

// (near misses of a name - surrounding white space, the other case - are names of their own)
var names = []string{"a", "b", "c", "a", "b", "", "a ", " a", "A", "b\n", "a", "b"}

func genSeq(t *rapid.T) SeqCase {
	c := SeqCase{Clients: rapid.IntRange(1, 2).Draw(t, "clients")}
	n := rapid.IntRange(3, 30).Draw(t, "n")
	for i := 0; i < n; i++ {
		op := SeqOp{Client: rapid.IntRange(0, c.Clients-1).Draw(t, "client"), Pick: rapid.IntRange(0, 40).Draw(t, "pick")}
		op.In.Op = rapid.SampledFrom([]string{"register", "register", "ready", "ready", "unregister", "update", "service", "services"}).Draw(t, "op")
		op.In.Name = rapid.SampledFrom(names).Draw(t, "name")
		op.In.Tag = fmt.Sprintf("t%d", i)
		op.In.Valid = rapid.IntRange(0, 5).Draw(t, "valid") > 0
		if op.In.Name == "" {
			op.In.Valid = false
		}
		op.Local = (op.In.Op == "register" || op.In.Op == "unregister") && rapid.IntRange(0, 2).Draw(t, "local") == 0
		if (op.In.Op == "ready" || op.In.Op == "unregister" || op.In.Op == "register") && rapid.IntRange(0, 3).Draw(t, "vanish") == 0 {
			op.Vanish = rapid.IntRange(1, 5).Draw(t, "nvanish")
		}
		c.Ops = append(c.Ops, op)
	}
	return c
}

// pickID maps Pick to an id: one the model handed out, or a neighbour.
func pickID(handed []uint32, pick int) uint32 {
	if len(handed) == 0 {
		return uint32(2 + pick%3)
	}
	id := handed[pick%len(handed)]
	switch (pick / len(handed)) % 8 {
	case 6:
		return id + 1
	case 7:
		return id - 1
	}
	return id
}

func checkSeq(c SeqCase) error {
	vt.Journal(prop, "TestConformance", "C15:process-died", c)
	defer vt.JournalDone(prop, "TestConformance")
	w, cleanup, err := newWorld(c.Clients)
	if err != nil {
		return vt.Violationf("C15:setup", "%v", err)
	}
	defer cleanup()
	obs, closeObs, err := newObserver(w)
	if err != nil {
		return vt.Violationf("C15:setup", "observer: %v", err)
	}
	defer closeObs()
	m := initialModel()
	var handed []uint32
	var wantEvents []transition
	conflicts, reregister := 0, 0
	removedNames := map[string]bool{}
	for i, op := range c.Ops {
		in := op.In
		if in.Op == "ready" || in.Op == "unregister" || in.Op == "update" {
			in.ID = pickID(handed, op.Pick)
			if in.Op == "update" {
				// mostly the right name for that id
				if j := m.find(in.ID); j >= 0 && op.Pick%3 != 0 {
					in.Name = m.entries[j].name
					// now and then a description rebuilt from scratch: the right
					// name, the identifier left at zero (or taken from a stranger)
					switch op.Pick % 11 {
					case 4:
						in.ID = 0
					case 8:
						in.ID = m.last + 1
					}
				}
			}
		}
		if op.Vanish > 0 {
			var gone []func()
			for k := 0; k < op.Vanish; k++ {
				if _, closeIt, err := newObserver(w); err == nil {
					gone = append(gone, closeIt)
				}
			}
			for _, closeIt := range gone {
				closeIt()
			}
			vt.Label("subscribers-vanished-before-an-operation")
		}
		var out Out
		switch {
		case op.Local && in.Op == "register":
			in.Valid = in.Name != ""
			_, actor := probe.NewPong(in.Name, w.env.Journal)
			svc, err := w.env.Server.NewService(in.Name, actor)
			if err != nil {
				out = Out{OK: false}
				// the model: reserve fails
				nm, ok, _ := step(m, In{Op: "register", Name: in.Name, Valid: in.Valid}, out)
				if !ok {
					return vt.Violationf("C15:local-register", "step %d: Server.NewService(%q) failed (%v) although the model allows it (model %s)", i, in.Name, err, m.key())
				}
				m = nm
				continue
			}
			id := svc.ServiceID()
			w.local[id] = svc
			handed = append(handed, id)
			nm, ok, _ := step(m, In{Op: "register", Name: in.Name, Valid: in.Valid}, Out{OK: true, ID: id})
			if !ok {
				return vt.Violationf("C15:local-register", "step %d: Server.NewService(%q) returned id %d; model %s", i, in.Name, id, m.key())
			}
			nm, ok, tr := step(nm, In{Op: "ready", ID: id}, Out{OK: true})
			if !ok {
				return vt.Violationf("C15:local-register", "step %d: model refuses ready(%d)", i, id)
			}
			m = nm
			wantEvents = append(wantEvents, *tr)
			if removedNames[in.Name] {
				reregister++
			}
			continue
		case op.Local && in.Op == "unregister":
			svc, ok := w.local[in.ID]
			if !ok {
				continue
			}
			delete(w.local, in.ID)
			svc.Terminate()
			nm, okm, tr := step(m, In{Op: "unregister", ID: in.ID}, Out{OK: true})
			if !okm {
				// it had already been unregistered remotely: Terminate then finds nothing, which is fine
				continue
			}
			m = nm
			if tr != nil {
				wantEvents = append(wantEvents, *tr)
				removedNames[tr.name] = true
			}
			continue
		default:
			out = w.remote(op.Client, in)
		}
		nm, ok, tr := step(m, in, out)
		if !ok {
			return vt.Violationf("C15:conformance:"+in.Op, "step %d: %+v returned %+v, which the registry model does not allow in state %s", i, in, out, m.key())
		}
		if in.Op == "register" {
			if out.OK {
				handed = append(handed, out.ID)
				if removedNames[in.Name] {
					reregister++
				}
			} else if in.Valid {
				conflicts++
			}
		}
		if tr != nil {
			wantEvents = append(wantEvents, *tr)
			if !tr.added {
				removedNames[tr.name] = true
			}
		}
		m = nm
		// events so far, in order
		got := obs.wait(len(wantEvents))
		if fmt.Sprint(got) != fmt.Sprint(wantEvents) {
			return vt.Violationf("C15:events", "step %d (%+v): serviceAdded/serviceRemoved events %v, the model's transitions are %v", i, in, got, wantEvents)
		}
	}
	time.Sleep(300 * time.Microsecond)
	if got := obs.wait(len(wantEvents)); fmt.Sprint(got) != fmt.Sprint(wantEvents) {
		return vt.Violationf("C15:events", "at the end: events %v, transitions %v", got, wantEvents)
	}
	nontrivial := conflicts > 0 && reregister > 0
	key, _ := json.Marshal(c)
	labels := []string{fmt.Sprintf("clients=%d", c.Clients)}
	if conflicts > 0 {
		labels = append(labels, "name-conflict")
	}
	if reregister > 0 {
		labels = append(labels, "unregister-then-reregister")
	}
	vt.Case(nontrivial, string(key), labels...)
	if nontrivial {
		vt.Sample("script", c.Ops)
	}
	return nil
}

// ---------------------------------------------------------------------------
// concurrent histories

type ConcOp struct {
	Op   string `json:"op"` // register | cycle | service | services | update | local
	Name string `json:"name"`
}

type ConcCase struct {
	Remote [][]ConcOp `json:"remote"`
	Local  [][]ConcOp `json:"local"`
}

func genConc(t *rapid.T) ConcCase {
	var c ConcCase
	nr := rapid.IntRange(2, 3).Draw(t, "remote")
	nl := rapid.IntRange(1, 2).Draw(t, "local")
	gen := func(local bool) []ConcOp {
		n := rapid.IntRange(1, 6).Draw(t, "n")
		var ops []ConcOp
		for i := 0; i < n; i++ {
			op := ConcOp{Name: rapid.SampledFrom([]string{"a", "b", "c"}).Draw(t, "name")}
			if local {
				op.Op = rapid.SampledFrom([]string{"local", "local", "service", "services"}).Draw(t, "lop")
			} else {
				op.Op = rapid.SampledFrom([]string{"register", "cycle", "cycle", "service", "services", "update"}).Draw(t, "rop")
			}
			ops = append(ops, op)
		}
		return ops
	}
	for i := 0; i < nr; i++ {
		c.Remote = append(c.Remote, gen(false))
	}
	for i := 0; i < nl; i++ {
		c.Local = append(c.Local, gen(true))
	}
	return c
}

var registryModel = porcupine.Model{
	Init: func() interface{} { return initialModel().key() },
	Step: func(state, input, output interface{}) (bool, interface{}) {
		m := parseKey(state.(string))
		nm, ok, _ := step(m, input.(In), output.(Out))
		return ok, nm.key()
	},
	DescribeOperation: func(in, out interface{}) string { return fmt.Sprintf("%+v -> %+v", in, out) },
}

func parseKey(k string) model {
	var m model
	parts := strings.SplitN(k, "|", 2)
	fmt.Sscanf(parts[0], "%d", &m.last)
	for _, e := range strings.Split(parts[1], ",") {
		if e == "" {
			continue
		}
		f := strings.Split(e, ":")
		var en entry
		fmt.Sscanf(f[0], "%d", &en.id)
		en.name, en.tag, en.ready = f[1], f[2], f[3] == "true"
		m.entries = append(m.entries, en)
	}
	return m
}

func checkConc(c ConcCase) error {
	vt.Journal(prop, "TestLinearizable", "C15:process-died", c)
	defer vt.JournalDone(prop, "TestLinearizable")
	w, cleanup, err := newWorld(len(c.Remote))
	if err != nil {
		return vt.Violationf("C15:setup", "%v", err)
	}
	defer cleanup()
	obs, closeObs, err := newObserver(w)
	if err != nil {
		return vt.Violationf("C15:setup", "observer: %v", err)
	}
	defer closeObs()
	var clk int64
	var cmu sync.Mutex
	now := func() int64 { cmu.Lock(); defer cmu.Unlock(); clk++; return clk }
	var hmu sync.Mutex
	var history []porcupine.Operation
	record := func(client int, in In, call int64, out Out, ret int64) {
		hmu.Lock()
		history = append(history, porcupine.Operation{ClientId: client, Input: in, Call: call, Output: out, Return: ret})
		hmu.Unlock()
	}
	var wg sync.WaitGroup
	start := make(chan struct{})
	tagN := 0
	var tmu sync.Mutex
	nextTag := func() string { tmu.Lock(); defer tmu.Unlock(); tagN++; return fmt.Sprintf("g%d", tagN) }
	localRemoteOverlap := false
	for ci, ops := range c.Remote {
		wg.Add(1)
		go func(ci int, ops []ConcOp) {
			defer wg.Done()
			<-start
			var mine []uint32 // ids this client registered and still owns
			var mineNames []string
			do := func(in In) Out {
				call := now()
				out := w.remote(ci, in)
				record(ci, in, call, out, now())
				return out
			}
			for _, op := range ops {
				switch op.Op {
				case "register":
					out := do(In{Op: "register", Name: op.Name, Tag: nextTag(), Valid: true})
					if out.OK {
						mine = append(mine, out.ID)
						mineNames = append(mineNames, op.Name)
					}
				case "cycle": // register, ready, unregister one of its own
					if len(mine) == 0 {
						out := do(In{Op: "register", Name: op.Name, Tag: nextTag(), Valid: true})
						if out.OK {
							mine = append(mine, out.ID)
							mineNames = append(mineNames, op.Name)
						}
						continue
					}
					id := mine[0]
					if do(In{Op: "ready", ID: id}).OK {
						continue // next cycle on this id unregisters it
					}
					do(In{Op: "unregister", ID: id})
					mine, mineNames = mine[1:], mineNames[1:]
				case "update":
					if len(mine) > 0 {
						do(In{Op: "update", ID: mine[0], Name: mineNames[0], Tag: nextTag(), Valid: true})
					}
				case "service":
					do(In{Op: "service", Name: op.Name})
				case "services":
					do(In{Op: "services"})
				}
			}
		}(ci, ops)
	}
	for li, ops := range c.Local {
		wg.Add(1)
		go func(li int, ops []ConcOp) {
			defer wg.Done()
			<-start
			client := len(c.Remote) + li
			for _, op := range ops {
				switch op.Op {
				case "local":
					call := now()
					_, actor := probe.NewPong(op.Name, w.env.Journal)
					svc, err := w.env.Server.NewService(op.Name, actor)
					ret := now()
					if err != nil {
						record(client, In{Op: "register", Name: op.Name, Valid: true}, call, Out{OK: false}, ret)
						continue
					}
					id := svc.ServiceID()
					// NewService is Reserve + Enable: two operations spanning the whole call
					record(client, In{Op: "register", Name: op.Name, Valid: true}, call, Out{OK: true, ID: id}, ret)
					record(client, In{Op: "ready", ID: id}, call, Out{OK: true}, ret)
					call = now()
					svc.Terminate()
					record(client, In{Op: "unregister", ID: id}, call, Out{OK: true}, now())
				case "service":
					call := now()
					// the local path reads the directory through the server's own session
					out := w.remote(0, In{Op: "service", Name: op.Name})
					record(client, In{Op: "service", Name: op.Name}, call, out, now())
				case "services":
					call := now()
					out := w.remote(0, In{Op: "services"})
					record(client, In{Op: "services"}, call, out, now())
				}
			}
		}(li, ops)
	}
	close(start)
	done := make(chan struct{})
	go func() { wg.Wait(); close(done) }()
	select {
	case <-done:
	case <-time.After(3 * bound):
		return vt.Violationf("C15:hang", "concurrent directory operations did not finish within %v", 3*bound)
	}
	res := porcupine.CheckOperationsTimeout(registryModel, history, 30*time.Second)
	if res == porcupine.Illegal {
		sort.Slice(history, func(i, j int) bool { return history[i].Call < history[j].Call })
		desc := ""
		for _, h := range history {
			desc += fmt.Sprintf("\n  client %d [%d,%d] %+v -> %+v", h.ClientId, h.Call, h.Return, h.Input, h.Output)
		}
		return vt.Violationf("C15:not-linearizable", "the history is not linearizable against the registry model:%s", desc)
	}
	if res == porcupine.Unknown {
		vt.Label("porcupine-timeout")
	}
	// events: one added per ready transition, one removed per unregister-of-ready, added before removed
	readyOK, unregOK := map[uint32]int{}, map[uint32]int{}
	for _, h := range history {
		in, out := h.Input.(In), h.Output.(Out)
		if in.Op == "ready" && out.OK {
			readyOK[in.ID]++
		}
		if in.Op == "unregister" && out.OK {
			unregOK[in.ID]++
		}
		for _, g := range history {
			if (h.ClientId >= len(c.Remote)) != (g.ClientId >= len(c.Remote)) && h.Call < g.Return && g.Call < h.Return &&
				h.Input.(In).Op != "service" && h.Input.(In).Op != "services" && g.Input.(In).Op != "service" && g.Input.(In).Op != "services" {
				localRemoteOverlap = true
			}
		}
	}
	total := 0
	for id := range readyOK {
		total++
		if unregOK[id] > 0 {
			total++
		}
	}
	evs := obs.wait(total)
	time.Sleep(300 * time.Microsecond)
	evs = obs.wait(total)
	added, removed := map[uint32]int{}, map[uint32]int{}
	for _, e := range evs {
		if e.added {
			if removed[e.id] > 0 {
				return vt.Violationf("C15:event-order", "service %d: added event after its removed event: %v", e.id, evs)
			}
			added[e.id]++
		} else {
			removed[e.id]++
		}
	}
	for id, n := range readyOK {
		if added[id] != n {
			return vt.Violationf("C15:events", "service %d became ready %d time(s) but %d serviceAdded events were emitted (%v)", id, n, added[id], evs)
		}
		wantRemoved := 0
		if unregOK[id] > 0 {
			wantRemoved = 1
		}
		if removed[id] != wantRemoved {
			return vt.Violationf("C15:events", "service %d: %d serviceRemoved events, expected %d (%v)", id, removed[id], wantRemoved, evs)
		}
	}
	for id := range added {
		if readyOK[id] == 0 {
			return vt.Violationf("C15:events", "serviceAdded emitted for service %d which never became ready", id)
		}
	}
	key, _ := json.Marshal(c)
	vt.Case(localRemoteOverlap, "conc"+string(key), "mode=concurrent", fmt.Sprintf("remote=%d", len(c.Remote)), fmt.Sprintf("local=%d", len(c.Local)))
	if localRemoteOverlap {
		vt.Sample("history", fmt.Sprintf("%d operations; remote clients %d, local goroutines %d", len(history), len(c.Remote), len(c.Local)))
	}
	return nil
}

func TestConformance(t *testing.T)  { vt.Run(t, prop, "TestConformance", genSeq, checkSeq) }
func TestLinearizable(t *testing.T) { vt.Run(t, prop, "TestLinearizable", genConc, checkConc) }

func TestReplay(t *testing.T) {
	vt.Replay(t, map[string]func(json.RawMessage) error{"TestConformance": vt.Decode(checkSeq), "TestLinearizable": vt.Decode(checkConc), "TestEventOrder": vt.Decode(checkOrder)})
}
