// Package c05gen decides C05: generated proxy and stub code compiles and the
// two halves are mutual inverses. Two-level generated search: IDL programs
// (this package, rapid) and values (inside each generated package, rapid +
// reflection).
package c05gen

import (
	"bytes"
	_ "embed"
	"encoding/json"
	"fmt"
	"go/ast"
	"go/parser"
	"go/token"
	"os"
	"os/exec"
	"path/filepath"
	"regexp"
	"sort"
	"strings"
	"sync/atomic"
	"testing"
	"time"

	"github.com/lugu/qiloop/meta/idl"
	"github.com/lugu/qiloop/meta/stub"
	"pgregory.net/rapid"
	"verif/harness/vt"
)

const prop = "C05"

func TestMain(m *testing.M) {
	vt.Watchdog = 900 * time.Second
	vt.Main(m)
}

//go:embed tmpl/rt_test.go.txt
var rtTemplate string

// ---------------------------------------------------------------------------
// IDL programs

type Param struct {
	Name string `json:"name"`
	Type string `json:"type"` // IDL spelling
}

type Action struct {
	Kind   string  `json:"kind"` // fn | sig | prop
	Name   string  `json:"name"`
	Params []Param `json:"params"`
	Ret    string  `json:"ret,omitempty"`
}

type Struct struct {
	Name   string  `json:"name"`
	Fields []Param `json:"fields"`
}

type Interface struct {
	Name    string   `json:"name"`
	Actions []Action `json:"actions"`
}

// Case is one IDL package.
type Case struct {
	Package    string      `json:"package"`
	Structs    []Struct    `json:"structs"`
	Interfaces []Interface `json:"interfaces"`
}

// Text renders the IDL file.
func (c Case) Text() string {
	var sb strings.Builder
	fmt.Fprintf(&sb, "package %s\n", c.Package)
	for _, itf := range c.Interfaces {
		fmt.Fprintf(&sb, "interface %s\n", itf.Name)
		for _, a := range itf.Actions {
			ps := make([]string, len(a.Params))
			for i, p := range a.Params {
				ps[i] = p.Name + ": " + p.Type
			}
			line := fmt.Sprintf("\t%s %s(%s)", a.Kind, a.Name, strings.Join(ps, ", "))
			if a.Kind == "fn" && a.Ret != "" {
				line += " -> " + a.Ret
			}
			sb.WriteString(line + "\n")
		}
		sb.WriteString("end\n")
	}
	for _, s := range c.Structs {
		fmt.Fprintf(&sb, "struct %s\n", s.Name)
		for _, f := range s.Fields {
			fmt.Fprintf(&sb, "\t%s: %s\n", f.Name, f.Type)
		}
		sb.WriteString("end\n")
	}
	return sb.String()
}

var scalars = []string{"int8", "uint8", "int16", "uint16", "int32", "uint32", "int64", "uint64", "float32", "float64", "bool", "str", "str", "int32", "any"}
var keyTypes = []string{"int8", "uint8", "int16", "uint16", "int32", "uint32", "int64", "uint64", "bool", "str", "str"}

func drawType(t *rapid.T, structs []string, depth int) string {
	kinds := []string{"scalar", "scalar", "scalar"}
	if len(structs) > 0 {
		kinds = append(kinds, "struct", "struct")
	}
	if depth > 0 {
		kinds = append(kinds, "vec", "map", "tuple")
	}
	switch rapid.SampledFrom(kinds).Draw(t, "tk") {
	case "struct":
		return rapid.SampledFrom(structs).Draw(t, "sref")
	case "vec":
		return "Vec<" + drawType(t, structs, depth-1) + ">"
	case "map":
		return "Map<" + rapid.SampledFrom(keyTypes).Draw(t, "mk") + "," + drawType(t, structs, depth-1) + ">"
	case "tuple":
		n := rapid.IntRange(1, 3).Draw(t, "tn")
		parts := make([]string, n)
		for i := range parts {
			parts[i] = drawType(t, structs, depth-1)
		}
		return "Tuple<" + strings.Join(parts, ",") + ">"
	}
	return rapid.SampledFrom(scalars).Draw(t, "scalar")
}

// identifier classes
var (
	plainNames     = []string{"a", "b", "value1", "count", "speed", "item", "x2", "data_1", "fooBar", "Name", "z"}
	goKeywords     = []string{"range", "func", "type", "map", "go", "select", "chan", "var", "package", "interface", "struct", "default", "switch", "return", "for", "if", "import", "const", "break", "case", "continue", "defer", "else", "fallthrough", "goto"}
	predeclared    = []string{"string", "error", "len", "int", "bool", "nil", "true", "append", "byte", "make", "new", "uint32", "float64", "copy", "cap", "panic"}
	generatorNames = []string{"p", "buf", "err", "msg", "c", "ret", "out", "args", "resp", "name", "value", "update", "ch", "s", "r", "w", "b", "i", "m", "size", "from", "impl", "session", "signal", "cancel", "chPay", "payload", "e", "ok", "response", "callErr", "errOut", "bus", "basic", "fmt", "net", "object", "bytes", "io", "log"}
	reservedMethod = []string{"Subscribe", "Proxy", "Call", "MetaObject", "Terminate", "Property", "SetProperty", "Properties", "RegisterEvent", "UnregisterEvent", "CallID", "ObjectID", "ServiceID", "OnDisconnect", "Activate", "OnTerminate", "Receive", "WithContext", "Stats", "IsStatsEnabled", "String"}
)

type nameGen struct {
	used map[string]bool
}

// classes lists which identifier classes are generated; known findings shrink
// it (exclusion by construction).
func paramClasses() []string {
	cls := []string{"plain", "plain", "plain"}
	if !vt.Known("C05:identifier-hygiene:param") {
		cls = append(cls, "keyword", "predeclared", "generator")
	} else {
		vt.Excluded("C05:identifier-hygiene:param")
	}
	return cls
}

// methodParamClasses: the parameters of a method are the one place where the
// generators do clean names up (signature.CleanVarName: the Go keywords, string
// and error get a suffix), so those names are drawn there whatever is listed
// for the other positions.
func methodParamClasses() []string {
	cls := paramClasses()
	if vt.Known("C05:identifier-hygiene:param") {
		cls = append(cls, "cleaned")
	}
	return cls
}

// (of the names CleanVarName knows, the Go keywords still reach other emission
// sites verbatim - the listed finding - ; error shadows the result type of every generated method; string alone is safe)
var cleanedNames = []string{"string"}

func actionClasses() []string {
	cls := []string{"plain", "plain", "plain", "plain"}
	if !vt.Known("C05:identifier-hygiene:action") {
		cls = append(cls, "reserved", "keyword", "casepair")
	} else {
		vt.Excluded("C05:identifier-hygiene:action")
	}
	return cls
}

func (g *nameGen) draw(t *rapid.T, label string, classes []string, labels map[string]bool) string {
	for try := 0; ; try++ {
		cls := rapid.SampledFrom(classes).Draw(t, label+"_class")
		var n string
		switch cls {
		case "keyword":
			n = rapid.SampledFrom(goKeywords).Draw(t, label)
		case "cleaned":
			n = rapid.SampledFrom(cleanedNames).Draw(t, label)
		case "predeclared":
			n = rapid.SampledFrom(predeclared).Draw(t, label)
		case "generator":
			n = rapid.SampledFrom(generatorNames).Draw(t, label)
		case "reserved":
			n = rapid.SampledFrom(reservedMethod).Draw(t, label)
			if rapid.Bool().Draw(t, label+"_lower") {
				n = strings.ToLower(n[:1]) + n[1:]
			}
		case "casepair":
			// an identifier differing from an existing one only by the case of its first letter
			for u := range g.used {
				if u != "" {
					if strings.ToUpper(u[:1]) != u[:1] {
						n = strings.ToUpper(u[:1]) + u[1:]
					} else {
						n = strings.ToLower(u[:1]) + u[1:]
					}
					break
				}
			}
			if n == "" {
				n = rapid.SampledFrom(plainNames).Draw(t, label)
			}
		default:
			n = rapid.SampledFrom(plainNames).Draw(t, label)
			cls = "plain"
		}
		if try > 4 {
			n = fmt.Sprintf("%s%d", n, try)
		}
		if !g.used[n] {
			g.used[n] = true
			if cls != "plain" {
				labels["ident:"+label+":"+cls] = true
			}
			return n
		}
	}
}

var lastLabels map[string]bool

func genCase(t *rapid.T) Case {
	labels := map[string]bool{}
	c := Case{Package: rapid.SampledFrom([]string{"demo", "pkg1", "robot"}).Draw(t, "package")}
	top := &nameGen{used: map[string]bool{}}
	var structNames []string
	ns := rapid.IntRange(0, 4).Draw(t, "nstructs")
	for i := 0; i < ns; i++ {
		name := "S" + top.draw(t, "struct", []string{"plain"}, labels)
		name = strings.ToUpper(name[:1]) + name[1:]
		nf := rapid.IntRange(1, 4).Draw(t, "nfields")
		fg := &nameGen{used: map[string]bool{}}
		s := Struct{Name: name}
		for j := 0; j < nf; j++ {
			s.Fields = append(s.Fields, Param{Name: fg.draw(t, "field", paramClasses(), labels), Type: drawType(t, structNames, 2)})
		}
		c.Structs = append(c.Structs, s)
		structNames = append(structNames, name)
	}
	sigNames := map[string]bool{}
	ni := rapid.IntRange(1, 3).Draw(t, "nitf")
	itfNames := make([]string, ni)
	for i := range itfNames {
		itfNames[i] = "I" + top.draw(t, "itf", []string{"plain"}, labels)
	}
	// actionType: the type of a parameter, result, signal parameter or property;
	// now and then an object, i.e. an interface of the package
	// (objects in multi-parameter signals and object-typed properties are
	// listed findings: left out while they are listed)
	actionType := func(label string, knownClass string) string {
		if rapid.IntRange(0, 11).Draw(t, label+"_object") == 0 {
			name := itfNames[rapid.IntRange(0, ni-1).Draw(t, label+"_itf")]
			if knownClass != "" && vt.Known(knownClass) {
				vt.Excluded(knownClass)
				return drawType(t, structNames, 2)
			}
			labels["object-typed-action"] = true
			return name
		}
		return drawType(t, structNames, 2)
	}
	for i := 0; i < ni; i++ {
		itf := Interface{Name: itfNames[i]}
		ag := &nameGen{used: map[string]bool{}}
		nm := rapid.IntRange(0, 5).Draw(t, "nmethods")
		for j := 0; j < nm; j++ {
			a := Action{Kind: "fn", Name: ag.draw(t, "method", actionClasses(), labels)}
			pg := &nameGen{used: map[string]bool{}}
			np := rapid.IntRange(0, 4).Draw(t, "nparams")
			for k := 0; k < np; k++ {
				// (the clean-up does not reach object-typed parameters: those keep
				// the classes of the listed finding)
				pt := actionType("param", "")
				classes := methodParamClasses()
				for _, in := range itfNames {
					if pt == in {
						classes = paramClasses()
					}
				}
				a.Params = append(a.Params, Param{Name: pg.draw(t, "param", classes, labels), Type: pt})
			}
			if rapid.Bool().Draw(t, "hasret") {
				a.Ret = actionType("ret", "")
			}
			// A parameter called string is renamed on the proxy side only; in the
			// stub it shadows the type wherever the code of a later step spells
			// the type out (another parameter or a result which is a list, map or
			// tuple of strings): that is the listed identifier finding again, so
			// the name only stays where no such type follows.
			if vt.Known("C05:identifier-hygiene:param") {
				spelled := func(ty string) bool { return ty != "str" && strings.Contains(ty, "str") }
				clash := spelled(a.Ret) && a.Ret != "Vec<str>"
				for _, p := range a.Params {
					clash = clash || spelled(p.Type)
				}
				for k := range a.Params {
					if a.Params[k].Name == "string" && clash {
						a.Params[k].Name = "stringx"
					}
				}
			}
			// overloads: now and then a method takes the name of an earlier one
			// of the interface, with a different parameter list
			if j > 0 && rapid.IntRange(0, 4).Draw(t, "overload") == 0 {
				a.Name = itf.Actions[rapid.IntRange(0, j-1).Draw(t, "overloaded")].Name
				labels["overloaded-method"] = true
			}
			plist := func(a Action) string {
				var ts []string
				for _, p := range a.Params {
					ts = append(ts, p.Type)
				}
				return strings.Join(ts, ",")
			}
			for again := true; again; {
				again = false
				for _, prev := range itf.Actions {
					if prev.Name == a.Name && plist(prev) == plist(a) {
						a.Params = append(a.Params, Param{Name: pg.draw(t, "param", []string{"plain"}, labels), Type: "int32"})
						again = true
					}
				}
			}
			itf.Actions = append(itf.Actions, a)
		}
		nsig := rapid.IntRange(0, 3).Draw(t, "nsignals")
		for j := 0; j < nsig; j++ {
			a := Action{Kind: "sig", Name: ag.draw(t, "signal", actionClasses(), labels)}
			if vt.Known("C05:signal-struct-name-collision") {
				// known finding: multi-parameter signals of the same name in two
				// interfaces of one package collide on the generated struct name.
				// Excluded by construction: signal names are unique in the package.
				for sigNames[strings.ToLower(a.Name)] {
					a.Name += "x"
					ag.used[a.Name] = true
					vt.Excluded("C05:signal-struct-name-collision")
				}
			}
			sigNames[strings.ToLower(a.Name)] = true
			pg := &nameGen{used: map[string]bool{}}
			np := rapid.IntRange(1, 3).Draw(t, "nsparams")
			for k := 0; k < np; k++ {
				cls := ""
				if np > 1 {
					cls = "C05:object-in-multi-parameter-signal"
				}
				a.Params = append(a.Params, Param{Name: pg.draw(t, "sparam", paramClasses(), labels), Type: actionType("sparam", cls)})
			}
			itf.Actions = append(itf.Actions, a)
		}
		nprop := rapid.IntRange(0, 3).Draw(t, "nprops")
		for j := 0; j < nprop; j++ {
			a := Action{Kind: "prop", Name: ag.draw(t, "property", actionClasses(), labels)}
			// a property often has the name of the signal which announces its
			// changes: now and then it takes the name of a signal of the interface
			if nsig > 0 && rapid.IntRange(0, 4).Draw(t, "likesignal") == 0 {
				var sigs []string
				for _, x := range itf.Actions {
					if x.Kind == "sig" {
						sigs = append(sigs, x.Name)
					}
				}
				taken := false
				for _, x := range itf.Actions {
					if x.Kind == "prop" && len(sigs) > 0 && x.Name == sigs[0] {
						taken = true
					}
				}
				if len(sigs) > 0 && !taken {
					a.Name = sigs[0]
					labels["property-named-like-a-signal"] = true
				}
			}
			pg := &nameGen{used: map[string]bool{}}
			pt := actionType("prop", "C05:object-typed-property")
			if pt == "any" && vt.Known("C05:property-of-bare-any") {
				// known finding: a property declared `any` cannot be written or read
				// through the generated proxy (NewValue unwraps the dynamic value)
				vt.Excluded("C05:property-of-bare-any")
				pt = "str"
			}
			a.Params = []Param{{Name: pg.draw(t, "pparam", paramClasses(), labels), Type: pt}}
			itf.Actions = append(itf.Actions, a)
		}
		c.Interfaces = append(c.Interfaces, itf)
	}
	lastLabels = labels
	return c
}

// ---------------------------------------------------------------------------
// the implementor, derived from the generated file's AST

type itfInfo struct {
	goName, service              string
	methods, signals, properties []string
	methodDecls                  []string
}

func src(fset *token.FileSet, data []byte, n ast.Node) string {
	return string(data[fset.Position(n.Pos()).Offset:fset.Position(n.End()).Offset])
}

// buildImpl parses the generated file and writes impl_gen.go.
func buildImpl(pkgName string, generated []byte, services []string) (string, error) {
	fset := token.NewFileSet()
	f, err := parser.ParseFile(fset, "gen.go", generated, parser.ParseComments)
	if err != nil {
		return "", fmt.Errorf("generated file does not parse: %v", err)
	}
	imports := map[string]string{} // alias -> path
	for _, imp := range f.Imports {
		path := strings.Trim(imp.Path.Value, `"`)
		alias := path[strings.LastIndex(path, "/")+1:]
		if imp.Name != nil {
			alias = imp.Name.Name
		}
		imports[alias] = path
	}
	ifaces := map[string]*ast.InterfaceType{}
	var order []string
	for _, d := range f.Decls {
		gd, ok := d.(*ast.GenDecl)
		if !ok {
			continue
		}
		for _, sp := range gd.Specs {
			ts, ok := sp.(*ast.TypeSpec)
			if !ok {
				continue
			}
			if it, ok := ts.Type.(*ast.InterfaceType); ok {
				ifaces[ts.Name.Name] = it
				if strings.HasSuffix(ts.Name.Name, "Implementor") {
					order = append(order, strings.TrimSuffix(ts.Name.Name, "Implementor"))
				}
			}
		}
	}
	if len(order) != len(services) {
		return "", fmt.Errorf("%d Implementor interfaces for %d IDL interfaces", len(order), len(services))
	}
	used := map[string]bool{"bus": true}
	var body strings.Builder
	var reg strings.Builder
	for idx, goName := range order {
		impl := ifaces[goName+"Implementor"]
		helper := ifaces[goName+"SignalHelper"]
		var signals, properties, methods []string
		if helper != nil {
			for _, m := range helper.Methods.List {
				if len(m.Names) == 0 {
					continue
				}
				n := m.Names[0].Name
				if strings.HasPrefix(n, "Signal") {
					signals = append(signals, strings.TrimPrefix(n, "Signal"))
				} else if strings.HasPrefix(n, "Update") {
					properties = append(properties, strings.TrimPrefix(n, "Update"))
				}
			}
		}
		isValidator := func(n string) bool {
			for _, p := range properties {
				if n == "On"+p+"Change" {
					return true
				}
			}
			return false
		}
		tn := "verif" + goName + "Impl"
		fmt.Fprintf(&body, "type %s struct{ variant string }\n", tn)
		fmt.Fprintf(&body, "func (i *%s) Activate(activation bus.Activation, helper %sSignalHelper) error { verifHelpers[%q+i.variant] = helper; return nil }\n", tn, goName, goName)
		fmt.Fprintf(&body, "func (i *%s) OnTerminate() {}\n", tn)
		for _, m := range impl.Methods.List {
			if len(m.Names) == 0 {
				continue
			}
			name := m.Names[0].Name
			if name == "Activate" || name == "OnTerminate" {
				continue
			}
			ft := m.Type.(*ast.FuncType)
			ast.Inspect(ft, func(n ast.Node) bool {
				if se, ok := n.(*ast.SelectorExpr); ok {
					if id, ok := se.X.(*ast.Ident); ok {
						if _, isImport := imports[id.Name]; isImport {
							used[id.Name] = true
						}
					}
				}
				return true
			})
			var params, argNames []string
			k := 0
			for _, p := range ft.Params.List {
				ty := src(fset, generated, p.Type)
				n := len(p.Names)
				if n == 0 {
					n = 1
				}
				for j := 0; j < n; j++ {
					an := fmt.Sprintf("a%d", k)
					k++
					params = append(params, an+" "+ty)
					argNames = append(argNames, an)
				}
			}
			var results []string
			if ft.Results != nil {
				for _, r := range ft.Results.List {
					n := len(r.Names)
					if n == 0 {
						n = 1
					}
					for j := 0; j < n; j++ {
						results = append(results, src(fset, generated, r.Type))
					}
				}
			}
			call := fmt.Sprintf("verifCall(%q, %q", goName, name)
			for _, a := range argNames {
				call += ", " + a
			}
			call += ")"
			switch {
			case isValidator(name):
				fmt.Fprintf(&body, "func (i *%s) %s(%s) error { return nil }\n", tn, name, strings.Join(params, ", "))
			case len(results) == 1:
				fmt.Fprintf(&body, "func (i *%s) %s(%s) error { %s; return nil }\n", tn, name, strings.Join(params, ", "), call)
				methods = append(methods, name)
			case len(results) == 2:
				fmt.Fprintf(&body, "func (i *%s) %s(%s) (%s, error) {\n\tout := %s\n\tif out == nil {\n\t\tvar z %s\n\t\treturn z, nil\n\t}\n\treturn out.(%s), nil\n}\n",
					tn, name, strings.Join(params, ", "), results[0], call, results[0], results[0])
				methods = append(methods, name)
			default:
				return "", fmt.Errorf("implementor method %s has %d results", name, len(results))
			}
		}
		q := func(l []string) string {
			parts := make([]string, len(l))
			for i, s := range l {
				parts[i] = fmt.Sprintf("%q", s)
			}
			return "[]string{" + strings.Join(parts, ", ") + "}"
		}
		fmt.Fprintf(&reg, "\tverifItfs = append(verifItfs, verifItf{Service: %q, Go: %q, Actor: func() bus.Actor { return %sObject(&%s{}) }, Proxy: func(s bus.Session) (interface{}, error) { return %s(s) }, Create: func(s bus.Session, svc bus.Service) (interface{}, error) { return Create%s(s, svc, &%s{variant: \"#created\"}) }, Impl: &%s{}, Methods: %s, Signals: %s, Properties: %s})\n",
			services[idx], goName, goName, tn, goName, goName, tn, tn, q(methods), q(signals), q(properties))
	}
	var out strings.Builder
	fmt.Fprintf(&out, "// Code written by the verification harness (C05).\npackage %s\n\nimport (\n\t\"sync\"\n", pkgName)
	aliases := make([]string, 0, len(used))
	for a := range used {
		aliases = append(aliases, a)
	}
	sort.Strings(aliases)
	for _, a := range aliases {
		path, ok := imports[a]
		if !ok && a == "bus" {
			path = "github.com/lugu/qiloop/bus"
		}
		fmt.Fprintf(&out, "\t%s %q\n", a, path)
	}
	out.WriteString(")\n\n")
	out.WriteString(`type verifItf struct {
	Service, Go                  string
	Actor                        func() bus.Actor
	Proxy                        func(bus.Session) (interface{}, error)
	Create                       func(bus.Session, bus.Service) (interface{}, error)
	Impl                         interface{}
	Methods, Signals, Properties []string
}

var (
	verifItfs    []verifItf
	verifHelpers = map[string]interface{}{}
	verifMu      sync.Mutex
	verifCalls   = map[string][][]interface{}{}
	verifResults = map[string]interface{}{}
)

func verifCall(itf, method string, args ...interface{}) interface{} {
	verifMu.Lock()
	defer verifMu.Unlock()
	key := itf + "." + method
	verifCalls[key] = append(verifCalls[key], args)
	return verifResults[key]
}

func verifSetResult(itf, method string, v interface{}) {
	verifMu.Lock()
	defer verifMu.Unlock()
	verifResults[itf+"."+method] = v
}

func verifClearCalls() {
	verifMu.Lock()
	defer verifMu.Unlock()
	verifCalls = map[string][][]interface{}{}
}

func verifLastCall(itf, method string) []interface{} {
	verifMu.Lock()
	defer verifMu.Unlock()
	c := verifCalls[itf+"."+method]
	if len(c) != 1 {
		return nil
	}
	if c[0] == nil {
		return []interface{}{}
	}
	return c[0]
}

func verifCallCount(itf, method string) int {
	verifMu.Lock()
	defer verifMu.Unlock()
	return len(verifCalls[itf+"."+method])
}

`)
	out.WriteString(body.String())
	out.WriteString("\nfunc init() {\n" + reg.String() + "}\n")
	return out.String(), nil
}

// ---------------------------------------------------------------------------
// the pipeline

var moduleDir string
var pkgCounter int64

func module() (string, error) {
	if moduleDir != "" {
		return moduleDir, nil
	}
	base := os.Getenv("VERIF_SCRATCH")
	if base == "" {
		base = os.TempDir()
	}
	dir, err := os.MkdirTemp(base, "c05mod")
	if err != nil {
		return "", err
	}
	gomod := "module verifgen\n\ngo 1.23\n\nrequire (\n\tgithub.com/lugu/qiloop v0.0.0\n\tpgregory.net/rapid v1.3.0\n)\n\nreplace github.com/lugu/qiloop => /repo\n"
	if err := os.WriteFile(filepath.Join(dir, "go.mod"), []byte(gomod), 0o644); err != nil {
		return "", err
	}
	for _, cand := range []string{"../go.sum", "/verif/harness/go.sum"} {
		if data, err := os.ReadFile(cand); err == nil {
			os.WriteFile(filepath.Join(dir, "go.sum"), data, 0o644)
			break
		}
	}
	moduleDir = dir
	return dir, nil
}

func generate(text, pkgPath string) (out []byte, err error, panicked interface{}) {
	defer func() {
		if p := recover(); p != nil {
			panicked = p
		}
	}()
	pkg, err := idl.ParsePackage([]byte(text))
	if err != nil {
		return nil, fmt.Errorf("ParsePackage: %v", err), nil
	}
	var buf bytes.Buffer
	if err := stub.GeneratePackage(&buf, pkgPath, pkg); err != nil {
		return nil, fmt.Errorf("GeneratePackage: %v", err), nil
	}
	// the entry point behind `go generate` and the stub command writes the same
	// code into a file; here always the same file, which holds the (longer or
	// shorter) code of the previous case of this process
	if dir, err := module(); err == nil {
		in, out := filepath.Join(dir, "regen.idl"), filepath.Join(dir, "regen.out")
		if err := os.WriteFile(in, []byte(text), 0o644); err == nil {
			stub.GenerateStub(in, out, pkgPath) // (it ends the process on an error; the same text has just been parsed and generated)
			written, err := os.ReadFile(out)
			if err != nil || !bytes.Equal(written, buf.Bytes()) {
				return nil, fmt.Errorf("GenerateStub wrote %d bytes into a file used before (%v), GeneratePackage produced %d bytes: the file does not hold the generated code", len(written), err, len(buf.Bytes())), nil
			}
		}
	}
	return buf.Bytes(), nil, nil
}

var violationLine = regexp.MustCompile(`VIOLATION-GEN class=(\S+) (.*)`)

func identClass(c Case, output string) string {
	// attribute compile errors to the identifier classes present in the program
	classes := map[string]bool{}
	check := func(kind, n string) {
		for _, k := range goKeywords {
			if n == k {
				classes[kind+":keyword"] = true
			}
		}
		for _, k := range predeclared {
			if n == k {
				classes[kind+":predeclared"] = true
			}
		}
		for _, k := range generatorNames {
			if n == k {
				classes[kind+":generator-local"] = true
			}
		}
	}
	for _, s := range c.Structs {
		for _, f := range s.Fields {
			check("param", f.Name)
		}
	}
	for _, itf := range c.Interfaces {
		for _, a := range itf.Actions {
			for _, r := range reservedMethod {
				if strings.EqualFold(a.Name, r) {
					classes["action:reserved"] = true
				}
			}
			check("action", a.Name)
			for _, p := range a.Params {
				check("param", p.Name)
			}
		}
	}
	var l []string
	for k := range classes {
		l = append(l, k)
	}
	sort.Strings(l)
	if len(l) == 0 {
		return "plain-identifiers"
	}
	return strings.Join(l, "+")
}

func hasSignalCollision(c Case) bool {
	seen := map[string]string{}
	for _, itf := range c.Interfaces {
		for _, a := range itf.Actions {
			if a.Kind != "sig" || len(a.Params) < 2 {
				continue
			}
			sig := fmt.Sprint(a.Params)
			key := strings.ToLower(a.Name)
			if prev, ok := seen[key]; ok && prev != sig {
				return true
			}
			seen[key] = sig
		}
	}
	return false
}

// objectClass names the listed finding an object-typed action of the case
// falls under, if any.
func objectClass(c Case) string {
	isItf := map[string]bool{}
	for _, itf := range c.Interfaces {
		isItf[itf.Name] = true
	}
	for _, itf := range c.Interfaces {
		for _, a := range itf.Actions {
			for _, p := range a.Params {
				if !isItf[p.Type] {
					continue
				}
				if a.Kind == "prop" {
					return "C05:object-typed-property"
				}
				if a.Kind == "sig" && len(a.Params) > 1 {
					return "C05:object-in-multi-parameter-signal"
				}
			}
		}
	}
	return ""
}

func hasBareAnyProperty(c Case) bool {
	for _, itf := range c.Interfaces {
		for _, a := range itf.Actions {
			if a.Kind == "prop" && len(a.Params) == 1 && a.Params[0].Type == "any" {
				return true
			}
		}
	}
	return false
}

func checkCase(c Case) error {
	text := c.Text()
	mod, err := module()
	if err != nil {
		return vt.Violationf("C05:setup", "scratch module: %v", err)
	}
	n := atomic.AddInt64(&pkgCounter, 1)
	pkgDir := filepath.Join(mod, fmt.Sprintf("p%d", n))
	if err := os.MkdirAll(pkgDir, 0o755); err != nil {
		return vt.Violationf("C05:setup", "%v", err)
	}
	defer os.RemoveAll(pkgDir)
	// the IDL must be accepted by the parser (the domain of the property)
	gen, gerr, p := generate(text, fmt.Sprintf("verifgen/p%d", n))
	if p != nil {
		return vt.Violationf("C05:generator-panic", "generation panicked: %v\n%s", p, text)
	}
	if gerr != nil {
		if strings.HasPrefix(gerr.Error(), "ParsePackage") {
			return vt.Violationf("C05:bad-case", "the harness generated IDL the parser rejects: %v\n%s", gerr, text)
		}
		return vt.Violationf("C05:generator-error:"+identClass(c, ""), "%v\n%s", gerr, text)
	}
	var services []string
	for _, itf := range c.Interfaces {
		services = append(services, itf.Name)
	}
	impl, err := buildImpl(c.Package, gen, services)
	if err != nil {
		return vt.Violationf("C05:does-not-compile:"+identClass(c, ""), "%v\n--- IDL\n%s", err, text)
	}
	os.WriteFile(filepath.Join(pkgDir, "gen.go"), gen, 0o644)
	os.WriteFile(filepath.Join(pkgDir, "impl_gen.go"), []byte(impl), 0o644)
	os.WriteFile(filepath.Join(pkgDir, "rt_test.go"), []byte(strings.Replace(rtTemplate, "PKGNAME", c.Package, 1)), 0o644)
	checks := "40"
	if vt.Thorough() {
		checks = "150"
	}
	cmd := exec.Command("go", "test", "-v", "-vet=off", "-count=1", "-timeout", "120s", fmt.Sprintf("./p%d", n), "-rapid.checks="+checks, "-rapid.seed=7", "-rapid.nofailfile")
	cmd.Dir = mod
	cmd.Env = append(os.Environ(), "GOFLAGS=-mod=mod", "GOPROXY=off", "GOSUMDB=off", "GOTOOLCHAIN=local")
	start := time.Now()
	outb, runErr := cmd.CombinedOutput()
	out := string(outb)
	dur := time.Since(start)
	if strings.Contains(out, "[build failed]") || strings.Contains(out, "[setup failed]") {
		lines := strings.Split(out, "\n")
		if len(lines) > 25 {
			lines = lines[:25]
		}
		if oc := objectClass(c); oc != "" && (strings.Contains(out, "undefined: p") || strings.Contains(out, "undefined: c")) {
			return vt.Violationf(oc, "the generated package does not compile:\n%s\n--- IDL\n%s", strings.Join(lines, "\n"), text)
		}
		return vt.Violationf("C05:does-not-compile:"+identClass(c, out), "the generated package does not compile:\n%s\n--- IDL\n%s", strings.Join(lines, "\n"), text)
	}
	if m := violationLine.FindStringSubmatch(out); m != nil {
		cls := "C05:roundtrip:" + m[1]
		if strings.HasPrefix(m[1], "event-") && hasSignalCollision(c) {
			cls = "C05:signal-struct-name-collision"
		}
		if strings.HasPrefix(m[1], "property-") && hasBareAnyProperty(c) {
			cls = "C05:property-of-bare-any"
		}
		return vt.Violationf(cls, "%s\n--- IDL\n%s", m[2], text)
	}
	if runErr != nil {
		tail := out
		if len(tail) > 3000 {
			tail = tail[len(tail)-3000:]
		}
		return vt.Violationf("C05:generated-test-failed", "go test of the generated package failed: %v\n%s\n--- IDL\n%s", runErr, tail, text)
	}
	// statistics
	usesSharedStruct, nested := false, false
	use := map[string]int{}
	for _, itf := range c.Interfaces {
		for _, a := range itf.Actions {
			seen := map[string]bool{}
			for _, p := range append(append([]Param{}, a.Params...), Param{Type: a.Ret}) {
				for _, s := range c.Structs {
					if strings.Contains(p.Type, s.Name) && !seen[s.Name] {
						seen[s.Name] = true
						use[s.Name]++
					}
				}
				if strings.Count(p.Type, "<") >= 2 {
					nested = true
				}
			}
		}
	}
	for _, n := range use {
		if n >= 2 {
			usesSharedStruct = true
		}
	}
	calls, compileOnly := 0, 0
	if m := regexp.MustCompile(`VERIF-GEN-STATS calls=(\d+) compileonly=(\d+)`).FindStringSubmatch(out); m != nil {
		fmt.Sscanf(m[1], "%d", &calls)
		fmt.Sscanf(m[2], "%d", &compileOnly)
	}
	nontrivial := (usesSharedStruct || nested) && calls > 0
	labels := []string{fmt.Sprintf("interfaces=%d", len(c.Interfaces)), fmt.Sprintf("structs=%d", len(c.Structs))}
	if usesSharedStruct {
		labels = append(labels, "struct-shared-by-actions")
	}
	if nested {
		labels = append(labels, "nested-container")
	}
	if cls := identClass(c, ""); cls != "plain-identifiers" {
		labels = append(labels, "identifiers="+cls)
	}
	overloaded := false
	for _, itf := range c.Interfaces {
		seen := map[string]bool{}
		for _, a := range itf.Actions {
			if a.Kind == "fn" && seen[a.Name] {
				overloaded = true
			}
			if a.Kind == "fn" {
				seen[a.Name] = true
			}
		}
	}
	if overloaded {
		labels = append(labels, "overloaded-method")
	}
	if compileOnly > 0 {
		labels = append(labels, "object-typed-action(compiled,not-exercised)")
	}
	vt.LabelN("value-level-calls", int64(calls))
	vt.LabelN("pipeline-ms", dur.Milliseconds())
	key, _ := json.Marshal(c)
	vt.Case(nontrivial, string(key), labels...)
	if nontrivial {
		vt.Sample("idl", text)
	}
	return nil
}

func TestGenerated(t *testing.T) {
	defer func() {
		if moduleDir != "" {
			os.RemoveAll(moduleDir)
		}
	}()
	vt.Run(t, prop, "TestGenerated", genCase, checkCase)
}

func TestReplay(t *testing.T) {
	defer func() {
		if moduleDir != "" {
			os.RemoveAll(moduleDir)
		}
	}()
	vt.Replay(t, map[string]func(json.RawMessage) error{"TestGenerated": vt.Decode(checkCase)})
}
