// Package c10send decides C10: concurrent senders never corrupt the stream;
// each message arrives once, in order; every handler receives exactly the
// subsequence its filter selects.
package c10send

import (
	"bytes"
	"crypto/tls"
	"encoding/binary"
	"encoding/json"
	"fmt"
	"io"
	"log"
	gonet "net"
	"os"
	"path/filepath"
	"runtime"
	"sync"
	"sync/atomic"
	"testing"
	"time"

	qnet "github.com/lugu/qiloop/bus/net"
	"github.com/lugu/qiloop/bus/net/cert"
	"pgregory.net/rapid"
	"verif/harness/hio"
	"verif/harness/vt"
)

const prop = "C10"

func TestMain(m *testing.M) {
	log.SetOutput(io.Discard)
	vt.Main(m)
}

// HSpec is a receiving handler.
type HSpec struct {
	// all | none | parity | action | once | stuck (selects everything, queue of
	// one message, never read) | take (a filter with a memory: selects the next
	// Arg+1 messages and leaves with the last) | sample (with a memory: selects
	// one message in Arg+2) | consumer (registered through AddHandler: a callback
	// whose duration varies, behind the library's own queue of ten)
	Kind string `json:"kind"`
	Arg  uint32 `json:"arg"`
}

// Case is one workload.
type Case struct {
	Transport string  `json:"transport"` // netpipe | unix | tcp | tls | fdpipe | script
	Senders   int     `json:"senders"`
	PerSender int     `json:"per_sender"`
	Sizes     []int   `json:"sizes"` // payload size of message seq is Sizes[seq % len]
	Handlers  []HSpec `json:"handlers"`
	Yield     int     `json:"yield"`
	// Churn: while the messages arrive, a goroutine keeps registering a handler
	// which selects everything, removing it, registering one which selects
	// nothing in its place and removing that one (a slot ahead of the others'):
	// the second one never receives anything
	Churn bool `json:"churn,omitempty"`
	// ArrivalLast: the handler which records the arrival order is registered
	// behind the others instead of ahead of them
	ArrivalLast bool `json:"arrival_last,omitempty"`
	// FailedSends: before the run, this many sends fail on another connection
	// of the process whose peer is gone (from two goroutines). What a failed
	// send leaves behind must not show on a healthy connection.
	FailedSends int `json:"failed_sends,omitempty"`
	// StallMS: the receiving side only starts to read after this long (a busy
	// or stopped peer): senders wait, nothing is lost or damaged.
	StallMS int `json:"stall_ms,omitempty"`
	// CloseAfter: once every Send has returned, the sending side closes the
	// connection at once (no closing message is awaited): what was sent before
	// the close still arrives, all of it, before the receiving handlers are closed
	CloseAfter bool `json:"close_after,omitempty"`
}

func transports() []string {
	if vt.Thorough() {
		return []string{"netpipe", "unix", "script", "tcp", "tls", "fdpipe"}
	}
	return []string{"netpipe", "unix", "script", "script", "tcp", "fdpipe", "netpipe", "unix", "tls"}
}

func genCase(t *rapid.T) Case {
	c := Case{Transport: rapid.SampledFrom(transports()).Draw(t, "transport")}
	c.Senders = rapid.IntRange(1, 8).Draw(t, "senders")
	c.PerSender = rapid.IntRange(1, 60).Draw(t, "per")
	if vt.Thorough() {
		c.PerSender = rapid.IntRange(1, 200).Draw(t, "per2")
	}
	sizes := []int{0, 1, 100, 4096, 70000}
	if vt.Thorough() {
		sizes = append(sizes, 1<<20)
	}
	n := rapid.IntRange(1, 4).Draw(t, "nsizes")
	for i := 0; i < n; i++ {
		c.Sizes = append(c.Sizes, rapid.SampledFrom(sizes).Draw(t, "size"))
	}
	c.Churn = rapid.IntRange(0, 3).Draw(t, "churn") == 0
	k := rapid.IntRange(1, 5).Draw(t, "handlers")
	for i := 0; i < k; i++ {
		c.Handlers = append(c.Handlers, HSpec{
			Kind: rapid.SampledFrom([]string{"all", "none", "parity", "action", "once", "all", "parity", "action", "stuck", "take", "sample", "consumer", "slowall"}).Draw(t, "hkind"),
			Arg:  uint32(rapid.IntRange(0, 6).Draw(t, "harg")),
		})
	}
	c.Yield = rapid.IntRange(0, 3).Draw(t, "yield")
	c.ArrivalLast = rapid.Bool().Draw(t, "arrivallast")
	if c.Transport != "script" && rapid.IntRange(0, 2).Draw(t, "closeafter") == 0 {
		c.CloseAfter = true
	}
	if rapid.IntRange(0, 3).Draw(t, "failedfirst") == 0 {
		c.FailedSends = rapid.IntRange(1, 40).Draw(t, "failedsends")
	}
	// keep the total volume bounded
	total := 0
	for s := 0; s < c.PerSender; s++ {
		total += c.Sizes[s%len(c.Sizes)]
	}
	for total*c.Senders > 24<<20 && c.PerSender > 1 {
		c.PerSender /= 2
		total /= 2
	}
	return c
}

const barrierService = 0xFFFFFFFF

func (h HSpec) filter() qnet.Filter {
	return func(hdr *qnet.Header) (bool, bool) {
		if hdr.Service == barrierService {
			return false, true
		}
		switch h.Kind {
		case "all", "stuck", "consumer":
			return true, true
		case "slowall": // a filter which takes its time
			for i := 0; i < 4; i++ {
				runtime.Gosched()
			}
			return true, true
		case "none":
			return false, true
		case "parity":
			return hdr.Service%2 == h.Arg%2, true
		case "action":
			return hdr.Action <= h.Arg, true
		default: // once
			return true, false
		}
	}
}

func payload(sender, seq uint32, n int) []byte {
	b := make([]byte, n)
	x := uint64(sender)<<32 | uint64(seq) | 1
	for i := 0; i < n; i += 8 {
		x ^= x << 13
		x ^= x >> 7
		x ^= x << 17
		var w [8]byte
		binary.LittleEndian.PutUint64(w[:], x)
		copy(b[i:], w[:])
	}
	return b
}

type rx struct {
	spec  HSpec
	queue chan *qnet.Message
	mu    sync.Mutex
	// selected: what a filter with a memory answered "matched" for, in order
	selected []*qnet.Header
	calls    int
	// consumed: what the callback of a "consumer" was called with, in order
	consumed []*qnet.Message
}

// memoryFilter builds the filter of the kinds whose answer depends on what
// they were asked before; it records what it selects.
func (r *rx) memoryFilter() qnet.Filter {
	return func(hdr *qnet.Header) (bool, bool) {
		if hdr.Service == barrierService {
			return false, true
		}
		r.mu.Lock()
		defer r.mu.Unlock()
		r.calls++
		switch r.spec.Kind {
		case "take":
			n := int(r.spec.Arg) + 1
			if r.calls > n {
				return false, false
			}
			h := *hdr
			r.selected = append(r.selected, &h)
			return true, r.calls < n
		default: // sample
			if r.calls%(int(r.spec.Arg)+2) != 1 {
				return false, true
			}
			h := *hdr
			r.selected = append(r.selected, &h)
			return true, true
		}
	}
}

func (r *rx) consumer() qnet.Consumer {
	return func(m *qnet.Message) error {
		// the first messages of every run of eight take longer
		if (m.Header.ID%8) < 2 && r.spec.Arg > 0 {
			time.Sleep(time.Duration(r.spec.Arg) * 100 * time.Microsecond)
		}
		r.mu.Lock()
		r.consumed = append(r.consumed, m)
		r.mu.Unlock()
		return nil
	}
}

// connect builds a connected (sender endpoint, receiver endpoint) pair; the
// receiver's handlers are registered before it processes any byte.
// lateEndPoint stands for the receiving endpoint of a stalled peer: it comes
// into being (and starts to read) after the stall.
type lateEndPoint struct {
	qnet.EndPoint
	mu    sync.Mutex
	real  qnet.EndPoint
	close bool
}

func (l *lateEndPoint) Close() error {
	l.mu.Lock()
	defer l.mu.Unlock()
	l.close = true
	if l.real != nil {
		return l.real.Close()
	}
	return nil
}

func stalled(c Case, st qnet.Stream, register func(e qnet.EndPoint)) qnet.EndPoint {
	if c.StallMS == 0 {
		return qnet.EndPointFinalizer(st, register)
	}
	l := &lateEndPoint{}
	go func() {
		time.Sleep(time.Duration(c.StallMS) * time.Millisecond)
		l.mu.Lock()
		defer l.mu.Unlock()
		if l.close {
			st.Close()
			return
		}
		l.real = qnet.EndPointFinalizer(st, register)
	}()
	return l
}

func connect(c Case, register func(e qnet.EndPoint)) (a, b qnet.EndPoint, cleanup func(), err error) {
	cleanup = func() {}
	switch c.Transport {
	case "netpipe":
		x, y := gonet.Pipe()
		b = stalled(c, qnet.ConnStream(y), register)
		a = qnet.ConnEndPoint(x)
		return
	case "script":
		sa, sb := hio.NewScriptStream(nil), hio.NewScriptStream(nil)
		sa.YieldEvery, sb.YieldEvery = c.Yield, c.Yield
		sa.OnWrite = func(_ *hio.ScriptStream, p []byte) { sb.Feed(p) }
		sb.OnWrite = func(_ *hio.ScriptStream, p []byte) { sa.Feed(p) }
		b = qnet.EndPointFinalizer(sb, register)
		a = qnet.NewEndPoint(sa)
		return
	case "unix", "tcp", "tls":
		var l gonet.Listener
		var addr string
		dir, _ := os.MkdirTemp("", "c10")
		cleanup = func() { os.RemoveAll(dir) }
		switch c.Transport {
		case "unix":
			p := filepath.Join(dir, "s")
			l, err = gonet.Listen("unix", p)
			addr = "unix://" + p
		case "tcp":
			l, err = gonet.Listen("tcp", "127.0.0.1:0")
			if err == nil {
				addr = "tcp://" + l.Addr().String()
			}
		case "tls":
			var cer tls.Certificate
			cer, err = cert.GenerateCertificate()
			if err == nil {
				l, err = tls.Listen("tcp", "127.0.0.1:0", &tls.Config{Certificates: []tls.Certificate{cer}})
			}
			if err == nil {
				addr = "tcps://" + l.Addr().String()
			}
		}
		if err != nil {
			return
		}
		defer l.Close()
		acc := make(chan gonet.Conn, 1)
		go func() {
			conn, e := l.Accept()
			if tc, ok := conn.(*tls.Conn); ok && e == nil {
				// the dialling side completes its handshake inside Dial: the
				// accepting side must take part before anybody reads from it
				e = tc.Handshake()
			}
			if e == nil {
				acc <- conn
			} else {
				close(acc)
			}
		}()
		a, err = qnet.DialEndPoint(addr)
		if err != nil {
			return
		}
		conn, ok := <-acc
		if !ok {
			err = fmt.Errorf("accept failed")
			return
		}
		b = stalled(c, qnet.ConnStream(conn), register)
		return
	case "fdpipe":
		dir, _ := os.MkdirTemp("", "c10")
		cleanup = func() { os.RemoveAll(dir) }
		addr := "pipe://" + filepath.Join(dir, "p")
		var l qnet.Listener
		l, err = qnet.Listen(addr)
		if err != nil {
			return
		}
		defer l.Close()
		acc := make(chan qnet.Stream, 1)
		go func() {
			st, e := l.Accept()
			if e == nil {
				acc <- st
			} else {
				close(acc)
			}
		}()
		a, err = qnet.DialEndPoint(addr)
		if err != nil {
			return
		}
		st, ok := <-acc
		if !ok {
			err = fmt.Errorf("accept failed")
			return
		}
		b = qnet.EndPointFinalizer(st, register)
		return
	}
	err = fmt.Errorf("unknown transport %q", c.Transport)
	return
}

type key struct{ sender, seq uint32 }

func checkCase(c Case) error {
	total := c.Senders * c.PerSender
	arrival := make(chan *qnet.Message, total+8)
	var arrivalClosed int32
	rxs := make([]*rx, len(c.Handlers))
	var intruded int32
	stopChurn := make(chan struct{})
	var churnWG sync.WaitGroup
	var stopOnce sync.Once
	endChurn := func() { stopOnce.Do(func() { close(stopChurn) }) }
	defer endChurn()
	register := func(e qnet.EndPoint) {
		if c.Churn {
			// a placeholder takes a slot ahead of the other handlers'; the churner
			// frees it and from then on its handlers come and go in that slot
			placeholder := e.MakeHandler(func(*qnet.Header) (bool, bool) { return false, true }, make(chan *qnet.Message, 1), nil)
			churnWG.Add(1)
			defer func() {
				go func() {
					defer churnWG.Done()
					e.RemoveHandler(placeholder)
					for {
						select {
						case <-stopChurn:
							return
						default:
						}
						q1 := make(chan *qnet.Message, total+8)
						id1 := e.MakeHandler(func(*qnet.Header) (bool, bool) { return true, true }, q1, nil)
						e.RemoveHandler(id1)
						q2 := make(chan *qnet.Message, total+8)
						id2 := e.MakeHandler(func(*qnet.Header) (bool, bool) { return false, true }, q2, nil)
						e.RemoveHandler(id2)
						for len(q2) > 0 {
							if m, ok := <-q2; ok && m != nil {
								atomic.AddInt32(&intruded, 1)
							}
						}
					}
				}()
			}()
		}
		observe := func() {
			e.MakeHandler(func(hdr *qnet.Header) (bool, bool) { return true, true }, arrival, func(error) { atomic.StoreInt32(&arrivalClosed, 1) })
		}
		if c.ArrivalLast {
			defer observe()
		} else {
			observe()
		}
		for i, h := range c.Handlers {
			rxs[i] = &rx{spec: h, queue: make(chan *qnet.Message, total+8)}
			if h.Kind == "stuck" {
				// a consumer without room: the property promises it nothing, and
				// promises the others that it does not matter to them
				rxs[i].queue = make(chan *qnet.Message, 1)
			}
			switch h.Kind {
			case "take", "sample":
				e.MakeHandler(rxs[i].memoryFilter(), rxs[i].queue, nil)
			case "consumer":
				e.AddHandler(h.filter(), rxs[i].consumer(), nil)
			default:
				e.MakeHandler(h.filter(), rxs[i].queue, nil)
			}
		}
	}
	if c.FailedSends > 0 {
		x, y := gonet.Pipe()
		dead := qnet.ConnEndPoint(x)
		y.Close()
		var fw sync.WaitGroup
		for g := 0; g < 2; g++ {
			fw.Add(1)
			go func(g int) {
				defer fw.Done()
				for i := g; i < c.FailedSends; i += 2 {
					dead.Send(qnet.NewMessage(qnet.NewHeader(qnet.Event, 9, 9, 9, uint32(i)), payload(99, uint32(i), 10+i*37)))
				}
			}(g)
		}
		fw.Wait()
		dead.Close()
		vt.Label("failed-sends-on-another-connection-first")
	}
	a, b, cleanup, err := connect(c, register)
	defer cleanup()
	if err != nil {
		vt.Note("transport %s unavailable: %v", c.Transport, err)
		vt.Case(false, "unavailable", "transport-unavailable="+c.Transport)
		return nil
	}
	defer a.Close()
	defer b.Close()

	var wg sync.WaitGroup
	var sendErr atomic.Value
	var inFlight, overlap int32
	start := make(chan struct{})
	for s := 0; s < c.Senders; s++ {
		wg.Add(1)
		go func(s uint32) {
			defer wg.Done()
			<-start
			for seq := uint32(0); seq < uint32(c.PerSender); seq++ {
				size := c.Sizes[int(seq)%len(c.Sizes)]
				h := qnet.NewHeader(qnet.Event, s, seq, seq%7, s*1000000+seq)
				h.Flags = uint8(s*31 + seq*7 + 1) // every field of the header travels
				m := qnet.NewMessage(h, payload(s, seq, size))
				if atomic.AddInt32(&inFlight, 1) > 1 {
					atomic.StoreInt32(&overlap, 1)
				}
				err := a.Send(m)
				atomic.AddInt32(&inFlight, -1)
				if err != nil {
					sendErr.Store(fmt.Errorf("sender %d seq %d: %w", s, seq, err))
					return
				}
				if c.Yield > 0 && int(seq)%c.Yield == 0 {
					runtime.Gosched()
				}
			}
		}(uint32(s))
	}
	close(start)
	sent := make(chan struct{})
	go func() { wg.Wait(); close(sent) }()
	timeout := 60 * time.Second
	select {
	case <-sent:
	case <-time.After(timeout):
		return vt.Violationf("C10:send-stuck:"+c.Transport, "senders did not finish within %v", timeout)
	}
	if e := sendErr.Load(); e != nil {
		return vt.Violationf("C10:send-error:"+c.Transport, "%v", e)
	}
	if c.CloseAfter {
		a.Close()
	} else if err := a.Send(qnet.NewMessage(qnet.NewHeader(qnet.Event, barrierService, 0, 0, 0), nil)); err != nil {
		// barrier: once it arrives, every earlier message has been dispatched to every handler
		return vt.Violationf("C10:send-error:"+c.Transport, "barrier: %v", err)
	}
	var order []*qnet.Message
	deadline := time.After(timeout)
collect:
	for {
		select {
		case m, ok := <-arrival:
			if !ok && c.CloseAfter {
				if len(order) != total {
					return vt.Violationf("C10:lost:"+c.Transport+":sender-closed", "the sender closed the connection after its %d sends had returned; the receiving handler was closed having received %d of them", total, len(order))
				}
				break collect
			}
			if !ok {
				return vt.Violationf("C10:connection-closed:"+c.Transport, "the receiving endpoint closed after %d of %d messages (a corrupt frame closes the endpoint)", len(order), total)
			}
			if m.Header.Service == barrierService {
				break collect
			}
			order = append(order, m)
		case <-deadline:
			return vt.Violationf("C10:lost:"+c.Transport, "only %d of %d messages arrived within %v", len(order), total, timeout)
		}
	}
	// arrival order: every message exactly once, intact, per sender in order
	seen := map[key]bool{}
	next := make([]uint32, c.Senders)
	for i, m := range order {
		s, seq := m.Header.Service, m.Header.Object
		if int(s) >= c.Senders || seq >= uint32(c.PerSender) {
			return vt.Violationf("C10:corrupt:"+c.Transport, "arrival %d: unknown sender/seq %d/%d", i, s, seq)
		}
		if seen[key{s, seq}] {
			return vt.Violationf("C10:duplicate:"+c.Transport, "message %d/%d arrived twice", s, seq)
		}
		seen[key{s, seq}] = true
		if seq != next[s] {
			return vt.Violationf("C10:order:"+c.Transport, "sender %d: message %d arrived when %d was expected", s, seq, next[s])
		}
		next[s]++
		size := c.Sizes[int(seq)%len(c.Sizes)]
		if m.Header.ID != s*1000000+seq || m.Header.Action != seq%7 || m.Header.Flags != uint8(s*31+seq*7+1) || m.Header.Type != qnet.Event || m.Header.Magic != qnet.Magic || m.Header.Version != qnet.Version || !bytes.Equal(m.Payload, payload(s, seq, size)) {
			return vt.Violationf("C10:corrupt:"+c.Transport, "message %d/%d arrived with a different header or payload", s, seq)
		}
	}
	if len(order) != total {
		return vt.Violationf("C10:lost:"+c.Transport, "%d of %d messages arrived", len(order), total)
	}
	if c.Churn {
		endChurn()
		churnWG.Wait()
		if n := atomic.LoadInt32(&intruded); n > 0 {
			return vt.Violationf("C10:handler-selection:"+c.Transport, "a handler whose filter selects nothing, registered while messages arrived in the place of one which selected everything, received %d messages", n)
		}
		vt.Label("handlers-come-and-go-during-arrival")
	}
	// each handler: exactly the subsequence its filter selects, in arrival order
	for i, r := range rxs {
		var want []*qnet.Message
		if r.spec.Kind == "stuck" {
			continue
		}
		if r.spec.Kind == "consumer" {
			// behind the library's queue of ten the callback is promised no
			// completeness, but what it is called with comes in arrival order
			pos := map[*qnet.Message]int{}
			for k, m := range order {
				pos[m] = k
			}
			var prev, n int
			for stable := 0; stable < 4; { // let the callbacks under way finish
				r.mu.Lock()
				k := len(r.consumed)
				r.mu.Unlock()
				if k == n {
					stable++
				} else {
					stable, n = 0, k
				}
				time.Sleep(5 * time.Millisecond)
			}
			r.mu.Lock()
			consumed := append([]*qnet.Message{}, r.consumed...)
			r.mu.Unlock()
			prev = -1
			for j, m := range consumed {
				k, ok := pos[m]
				if !ok {
					return vt.Violationf("C10:consumer-foreign:"+c.Transport, "handler %d (AddHandler): callback %d was given a message which never arrived", i, j)
				}
				if k <= prev {
					return vt.Violationf("C10:consumer-order:"+c.Transport, "handler %d (AddHandler): callback %d was given arrival %d after arrival %d", i, j, k, prev)
				}
				prev = k
			}
			vt.LabelN("consumer-callbacks", int64(len(consumed)))
			continue
		}
		if r.spec.Kind == "take" || r.spec.Kind == "sample" {
			// a filter with a memory: the handler receives what the filter
			// answered "matched" for, each once, in that order
			r.mu.Lock()
			sel := append([]*qnet.Header{}, r.selected...)
			r.mu.Unlock()
			var got []*qnet.Message
		drainm:
			for {
				select {
				case m, ok := <-r.queue:
					if !ok {
						break drainm
					}
					got = append(got, m)
				default:
					break drainm
				}
			}
			if len(got) != len(sel) {
				return vt.Violationf("C10:handler-selection:"+c.Transport, "handler %d (%s %d, a filter with a memory) received %d messages, its filter had selected %d", i, r.spec.Kind, r.spec.Arg, len(got), len(sel))
			}
			for j := range got {
				if got[j].Header != *sel[j] {
					return vt.Violationf("C10:handler-order:"+c.Transport, "handler %d (%s %d): message %d is not the %d-th its filter selected", i, r.spec.Kind, r.spec.Arg, j, j)
				}
			}
			vt.Label("filter-with-memory")
			continue
		}
		f := r.spec.filter()
		for _, m := range order {
			matched, keep := f(&m.Header)
			if matched {
				want = append(want, m)
			}
			if !keep {
				break
			}
		}
		var got []*qnet.Message
	drain:
		for {
			select {
			case m, ok := <-r.queue:
				if !ok {
					break drain
				}
				got = append(got, m)
			default:
				break drain
			}
		}
		if len(got) != len(want) {
			return vt.Violationf("C10:handler-selection:"+c.Transport, "handler %d (%s %d) received %d messages, its filter selects %d of the arrival sequence", i, r.spec.Kind, r.spec.Arg, len(got), len(want))
		}
		for j := range got {
			if got[j] != want[j] {
				return vt.Violationf("C10:handler-order:"+c.Transport, "handler %d (%s %d): message %d is %d/%d, expected %d/%d", i, r.spec.Kind, r.spec.Arg, j, got[j].Header.Service, got[j].Header.Object, want[j].Header.Service, want[j].Header.Object)
			}
		}
	}
	big := false
	for _, s := range c.Sizes {
		if s >= 70000 {
			big = true
		}
	}
	nontrivial := c.Senders >= 2 && atomic.LoadInt32(&overlap) == 1 && big
	labels := []string{"transport=" + c.Transport, fmt.Sprintf("senders=%d", c.Senders)}
	if atomic.LoadInt32(&overlap) == 1 {
		labels = append(labels, "sends-overlapped")
	}
	if big {
		labels = append(labels, "payload>transport-buffer")
	}
	if c.StallMS > 0 {
		labels = append(labels, "peer-stalled")
	}
	if c.CloseAfter {
		labels = append(labels, "sender-closes-right-after-its-sends")
	}
	k, _ := json.Marshal(c)
	vt.Case(nontrivial, string(k), labels...)
	if nontrivial {
		vt.Sample("workload", c)
	}
	return nil
}

// genStalled: a peer which does not read for several seconds while more is
// outstanding than the transport buffers hold, several goroutines sending.
func genStalled(t *rapid.T) Case {
	c := Case{Transport: rapid.SampledFrom([]string{"unix", "tcp", "netpipe", "unix"}).Draw(t, "transport")}
	c.Senders = rapid.IntRange(2, 4).Draw(t, "senders")
	c.PerSender = rapid.IntRange(4, 20).Draw(t, "per")
	c.Sizes = []int{rapid.SampledFrom([]int{3 << 20, 1 << 20, 5 << 20}).Draw(t, "big")}
	for i := 1; i < c.PerSender; i++ {
		c.Sizes = append(c.Sizes, rapid.SampledFrom([]int{0, 10, 100, 5000}).Draw(t, "small"))
	}
	c.Handlers = []HSpec{{Kind: "all"}, {Kind: "parity", Arg: 1}}
	c.StallMS = rapid.SampledFrom([]int{1200, 5400, 6500, 11000}).Draw(t, "stall")
	return c
}

func TestSenders(t *testing.T)     { vt.Run(t, prop, "TestSenders", genCase, checkCase) }
func TestStalledPeer(t *testing.T) { vt.Run(t, prop, "TestStalledPeer", genStalled, checkCase) }

func TestReplay(t *testing.T) {
	vt.Replay(t, map[string]func(json.RawMessage) error{"TestSenders": vt.Decode(checkCase), "TestStalledPeer": vt.Decode(checkCase)})
}
