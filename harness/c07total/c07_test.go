// Package c07total decides C07: decoders and parsers are total and
// resource-bounded on arbitrary input.
package c07total

import (
	"bytes"
	"encoding/binary"
	"encoding/hex"
	"encoding/json"
	"fmt"
	"os"
	"reflect"
	"runtime"
	"strings"
	"testing"
	"time"

	"github.com/lugu/qiloop/bus"
	"github.com/lugu/qiloop/bus/directory"
	"github.com/lugu/qiloop/bus/logger"
	qnet "github.com/lugu/qiloop/bus/net"
	"github.com/lugu/qiloop/meta/idl"
	"github.com/lugu/qiloop/meta/signature"
	"github.com/lugu/qiloop/type/encoding"
	"github.com/lugu/qiloop/type/object"
	"github.com/lugu/qiloop/type/value"
	"pgregory.net/rapid"
	"verif/harness/bridge"
	"verif/harness/gen"
	"verif/harness/probe"
	"verif/harness/ref"
	"verif/harness/vt"
)

const prop = "C07"

func TestMain(m *testing.M) { vt.Main(m) }

// Case is one input for one entry point.
type Case struct {
	Entry  string `json:"entry"`
	Sig    string `json:"sig,omitempty"`    // typed / reflect: the signature driving the decoder
	Action uint32 `json:"action,omitempty"` // stub entries: action id
	Hex    string `json:"hex"`              // input bytes (text entries: the text)
	Kind   string `json:"kind"`             // how the input was produced
	Pre    bool   `json:"presized,omitempty"`
	// LongLen > 0 (kind "long-string"): the input is a string (or raw buffer) of
	// that many bytes where the entry expects one; it is built by the check,
	// together with one of half the length for comparison
	LongLen int `json:"long_len,omitempty"`
}

// Budget: wall time and cumulative allocation as a function of input length.
const (
	timeBudget    = 10 * time.Second
	allocConstant = 64 << 20
	// cumulative allocation per input byte: the parsec based text parsers
	// churn about 2.6 KiB of garbage per byte (measured, linear); binary
	// decoders copy their input a few times per nesting level.
	allocPerByteText   = 16 << 10
	allocPerByteBinary = 2 << 10
)

const serviceInfoSig = "(sIsI[s]ss)<ServiceInfo,name,serviceId,machineId,processId,endpoints,sessionId,objectUid>"

var reflectSigs = []string{"i", "s", "b", "d", "c", "W", "[s]", "[i]", "[[i]]", "[[[s]]]", "{si}", "{s[i]}", "{I{ss}}", "(is)", "([s]{sm})", "[m]", "m",
	"[(sI)]", "{I(ss)}", "(s(s(s(sI))))", "[{sm}]", "((m)[m])", "[b]", "[d]", "{lb}", "(cCwWiIlLfdbs)",
	// a list of every scalar kind (fast paths are written per element kind), alone and nested
	"[C]", "[c]", "[w]", "[W]", "[I]", "[l]", "[L]", "[f]", "([C])", "[[C]]", "{s[C]}", "([C]s[c])", "[([C]I)]", "{C[C]}"}

// reflectSig draws the type the reflection decoder is asked to fill: one of
// the table, or a generated one.
func reflectSig(t *rapid.T) string {
	if rapid.IntRange(0, 3).Draw(t, "rgen") == 0 {
		o := typeOpts()
		o.Leaves = append(append([]ref.Kind{}, gen.AllScalars...), ref.KValue)
		return gen.DrawType(t, o).Sig()
	}
	return rapid.SampledFrom(reflectSigs).Draw(t, "rsig")
}

var entries = []string{"message", "value", "typed", "metaobject", "objectref", "serviceinfo", "capmap", "reflect",
	"stub:directory", "stub:object", "stub:auth", "stub:logprovider", "sigparse", "idlparse"}

// maxParens caps '(' nesting in generated signature text while the
// exponential-backtracking finding is listed as known (excluded by
// construction, counted in the evidence).
const maxParenDepthKnown = 9

func parenDepth(b []byte) int {
	d, max := 0, 0
	for _, c := range b {
		if c == '(' {
			d++
			if d > max {
				max = d
			}
		} else if c == ')' && d > 0 {
			d--
		}
	}
	return max
}

func parenCount(b []byte) int { return bytes.Count(b, []byte("(")) }

// ---------------------------------------------------------------------------
// entry points

type outcome struct {
	consumed int
	accepted bool
	replies  int
}

type fakeChannel struct {
	cap  bus.CapabilityMap
	ep   qnet.EndPoint
	sent []*qnet.Message
	auth bool
}

func (c *fakeChannel) Cap() bus.CapabilityMap     { return c.cap }
func (c *fakeChannel) EndPoint() qnet.EndPoint    { return c.ep }
func (c *fakeChannel) Send(m *qnet.Message) error { c.sent = append(c.sent, m); return nil }
func (c *fakeChannel) SendError(m *qnet.Message, err error) error {
	h := qnet.NewHeader(qnet.Error, m.Header.Service, m.Header.Object, m.Header.Action, m.Header.ID)
	var buf bytes.Buffer
	value.String(err.Error()).Write(&buf)
	e := qnet.NewMessage(h, buf.Bytes())
	return c.Send(&e)
}
func (c *fakeChannel) SendReply(m *qnet.Message, response []byte) error {
	h := m.Header
	h.Type = qnet.Reply
	r := qnet.NewMessage(h, response)
	return c.Send(&r)
}
func (c *fakeChannel) Authenticate() error { return nil }
func (c *fakeChannel) Authenticated() bool { return c.auth }
func (c *fakeChannel) SetAuthenticated()   { c.auth = true }

func newActor(name string) bus.Actor {
	j := &probe.Journal{}
	var a bus.Actor
	switch name {
	case "stub:directory":
		a = directory.ServiceDirectoryObject(&probe.Dir{J: j})
	case "stub:object":
		_, a = probe.NewPong("p", j)
	case "stub:logprovider":
		a = logger.LogProviderObject(&probe.LogProv{J: j})
	case "stub:auth":
		return bus.ServiceAuthenticate(bus.Dictionary(map[string]string{"user": "pass"}))
	}
	a.Activate(bus.Activation{ServiceID: 1, ObjectID: 1, Terminate: func() {}})
	return a
}

func run(c Case, data []byte) (out outcome) {
	r := bytes.NewReader(data)
	done := func(err error) outcome {
		return outcome{consumed: len(data) - r.Len(), accepted: err == nil}
	}
	switch c.Entry {
	case "message":
		var m qnet.Message
		return done(m.Read(r))
	case "value":
		_, err := value.NewValue(r)
		return done(err)
	case "typed":
		reader, err := signature.MakeReader(c.Sig)
		if err != nil {
			return outcome{}
		}
		_, err = reader.Read(r)
		return done(err)
	case "metaobject":
		_, err := object.ReadMetaObject(r)
		return done(err)
	case "objectref":
		_, err := object.ReadObjectReference(r)
		return done(err)
	case "serviceinfo":
		_, err := directory.ReadServiceInfo(r)
		return done(err)
	case "capmap":
		_, err := bus.ReadCapabilityMap(r)
		return done(err)
	case "reflect":
		ty, err := ref.ParseSig(c.Sig)
		if err != nil {
			return outcome{}
		}
		gt := bridge.GoType(ty, nil)
		ptr := reflect.New(gt)
		if c.Pre && gt.Kind() == reflect.Slice {
			ptr.Elem().Set(reflect.MakeSlice(gt, 2, 8))
		}
		return done(encoding.NewDecoder(encoding.DefaultCap(), r).Decode(ptr.Interface()))
	case "sigparse":
		_, err := signature.Parse(string(data))
		return outcome{consumed: len(data), accepted: err == nil}
	case "idlparse":
		_, err := idl.ParsePackage(data)
		if err == nil {
			_, err = idl.ParseIDL(bytes.NewReader(data))
		}
		return outcome{consumed: len(data), accepted: err == nil}
	}
	if strings.HasPrefix(c.Entry, "stub:") {
		a := newActor(c.Entry)
		ep1, ep2 := qnet.Pipe()
		defer ep1.Close()
		defer ep2.Close()
		ch := &fakeChannel{cap: bus.DefaultCap(), ep: ep1, auth: true}
		h := qnet.NewHeader(qnet.Call, 1, 1, c.Action, 42)
		m := qnet.NewMessage(h, data)
		a.Receive(&m, ch)
		acc := false
		for _, s := range ch.sent {
			if s.Header.Type == qnet.Reply {
				acc = true
			}
		}
		return outcome{consumed: len(data), accepted: acc, replies: len(ch.sent)}
	}
	panic("unknown entry " + c.Entry)
}

// ---------------------------------------------------------------------------
// generators

var hostile = []uint32{0, 1, 2, 4095, 4096, 4097, 10*1024*1024 - 1, 10 * 1024 * 1024, 10*1024*1024 + 1,
	0x00FFFFFF, 0x03FFFFFF, 0x7FFFFFFF, 0x80000000, 0xFFFFFFFE, 0xFFFFFFFF}

func maxInput() int {
	if vt.Thorough() {
		return 64 << 10
	}
	return 4 << 10
}

func typeOpts() gen.TypeOpts {
	return gen.TypeOpts{Depth: 3, Width: 3,
		Leaves:  append(append([]ref.Kind{}, gen.AllScalars...), ref.KValue, ref.KValue, ref.KString, ref.KVoid, ref.KObject),
		MapKeys: gen.KeyScalars, Structs: true, Tuples: true, Maps: true, Lists: true, ZeroMem: true}
}

var stubActions = map[string][]uint32{
	"stub:directory":   {100, 101, 102, 103, 104, 105, 106, 108, 0, 1, 2, 5, 6, 8},
	"stub:object":      {0, 1, 2, 5, 6, 7, 8, 80, 81, 82, 83, 84, 85, 100, 101, 4, 999},
	"stub:auth":        {8, 0, 100},
	"stub:logprovider": {100, 101, 102, 6, 0},
}

// stubParamSigs are the parameter signatures of the stub actions (from the
// repository's IDL files) used to build valid payloads to mutate.
var stubParamSigs = map[string]map[uint32]string{
	"stub:directory":   {100: "(s)", 101: "()", 102: "(" + serviceInfoSig + ")", 103: "(I)", 104: "(I)", 105: "(" + serviceInfoSig + ")", 0: "(IIL)", 1: "(IIL)", 2: "(I)", 5: "(m)", 6: "(mm)", 8: "(IILs)"},
	"stub:object":      {0: "(IIL)", 1: "(IIL)", 2: "(I)", 5: "(m)", 6: "(mm)", 7: "()", 8: "(IILs)", 81: "(b)", 85: "(b)", 100: "(s)", 101: "(s)"},
	"stub:auth":        {8: "({sm})"},
	"stub:logprovider": {100: "(i)", 101: "(si)", 102: "({si})", 6: "(mm)"},
}

// validFor builds a valid encoding for the entry and returns its length
// fields.
func validFor(t *rapid.T, c *Case) ([]byte, []ref.Field) {
	vo := gen.DefaultValueOpts()
	var ty *ref.Type
	switch c.Entry {
	case "message":
		n := rapid.IntRange(0, 64).Draw(t, "plen")
		h := make([]byte, 28)
		binary.BigEndian.PutUint32(h[0:], 0x42dead42)
		binary.LittleEndian.PutUint32(h[4:], rapid.Uint32().Draw(t, "id"))
		binary.LittleEndian.PutUint32(h[8:], uint32(n))
		h[14] = byte(rapid.IntRange(1, 8).Draw(t, "type"))
		return append(h, rapid.SliceOfN(rapid.Byte(), n, n).Draw(t, "payload")...), []ref.Field{{Off: 8, Kind: ref.FStrLen}}
	case "value":
		ty = ref.Scalar(ref.KValue)
	case "typed":
		ty = gen.DrawType(t, typeOpts())
		c.Sig = ty.Sig()
	case "metaobject":
		ty = ref.MetaObjectType
	case "objectref":
		ty = ref.ObjectRefType
	case "serviceinfo":
		ty, _ = ref.ParseSig(serviceInfoSig)
	case "capmap":
		ty, _ = ref.ParseSig("{sm}")
	case "reflect":
		c.Sig = reflectSig(t)
		ty, _ = ref.ParseSig(c.Sig)
		c.Pre = rapid.Bool().Draw(t, "presized")
	default:
		sig, ok := stubParamSigs[c.Entry][c.Action]
		if !ok {
			sig = "()"
		}
		ty, _ = ref.ParseSig(sig)
	}
	var e ref.Encoder
	if err := e.Encode(ty, gen.DrawValue(t, ty, vo)); err != nil {
		t.Fatalf("harness: %v", err)
	}
	return e.Buf, e.Fields
}

// longData builds the input of a long-string case: a string of n bytes where
// the entry expects one.
func longData(c Case, n int) []byte {
	str := append(u32(uint32(n)), bytes.Repeat([]byte("abcdefg"), n/7+1)[:n]...)
	switch c.Entry {
	case "message":
		h := make([]byte, 28)
		binary.BigEndian.PutUint32(h[0:], 0x42dead42)
		binary.LittleEndian.PutUint32(h[8:], uint32(n))
		h[14] = 1
		return append(h, str[4:]...)
	case "value":
		return append(sigString("s"), str...)
	case "capmap":
		return append(u32(1), append(sigString("k"), append(sigString("s"), str...)...)...)
	}
	switch c.Sig {
	case "(is)":
		return append(u32(7), str...)
	case "[s]":
		return append(u32(1), str...)
	case "m":
		return append(sigString("s"), str...)
	}
	return str
}

func tower(level []byte, n int, tail []byte) []byte {
	var b []byte
	for i := 0; i < n; i++ {
		b = append(b, level...)
	}
	return append(b, tail...)
}

func sigString(s string) []byte {
	b := binary.LittleEndian.AppendUint32(nil, uint32(len(s)))
	return append(b, s...)
}

func u32(v uint32) []byte { return binary.LittleEndian.AppendUint32(nil, v) }

// amplifier builds inputs designed to reach deep states.
// ampMax bounds amplifier inputs. They are allowed to be larger than the other
// quick-tier inputs: an amplification of a few KiB per input byte (e.g. a
// per-level pre-allocation of 4096 entries) only exceeds the constant part of
// the allocation budget once the input has a few thousand nesting levels.
func ampMax() int {
	if vt.Thorough() {
		return 64 << 10
	}
	return 32 << 10
}

// containerTower is the signature of d nested lists ("[") or maps ("{i", "{s") around an int32.
func containerTower(open string, d int) string {
	closer := "]"
	if open[0] == '{' {
		closer = "}"
	}
	return strings.Repeat(open, d) + "i" + strings.Repeat(closer, d)
}

func amplifier(t *rapid.T, c *Case) []byte {
	max := ampMax()
	excludeParens := vt.Known("C07:sigparse:paren-nesting")
	parenDepthMax := 400
	if excludeParens {
		parenDepthMax = maxParenDepthKnown
		vt.Excluded("C07:sigparse:paren-nesting")
	}
	kind := rapid.SampledFrom([]string{"list-tower", "zero-width-count", "paren-tower", "unclosed", "sig-in-value", "deep-list-sig", "struct-tower", "sig-container-tower"}).Draw(t, "amp")
	c.Kind = "amplifier:" + kind
	count := rapid.SampledFrom(hostile).Draw(t, "count")
	depth := rapid.OneOf(rapid.IntRange(1, max/12), rapid.IntRange(max/24, max/12)).Draw(t, "depth")
	pdepth := rapid.IntRange(1, parenDepthMax).Draw(t, "pdepth")
	var sig string
	var body []byte
	switch kind {
	case "list-tower": // [m] holding one [m] holding one ... : 11 bytes per level
		// every level may announce more elements than it has: only the first
		// one (the next level) is present, the input ends in mid-air
		per := rapid.SampledFrom([]uint32{1, 1, 2, 4095, 4096}).Draw(t, "perlevel")
		level := append(sigString("[m]"), u32(per)...)
		body = tower(level, depth, append(sigString("i"), 0, 0, 0, 0))
		sig = "m"
	case "zero-width-count":
		sig = rapid.SampledFrom([]string{"[v]", "[()]", "{vv}", "[(v)]", "[[v]]", "{v()}"}).Draw(t, "zw")
		body = u32(count)
		if sig == "[[v]]" {
			body = append(u32(3), append(u32(count), append(u32(count), u32(count)...)...)...)
		}
	case "paren-tower":
		sig = strings.Repeat("(", pdepth) + "i" + strings.Repeat(")", pdepth)
		body = []byte{1, 0, 0, 0}
	case "unclosed":
		sig = strings.Repeat(rapid.SampledFrom([]string{"(", "[", "{", "(((i", "[(", "{s("}).Draw(t, "open"), pdepth)
	case "sig-in-value":
		inner := strings.Repeat("(", pdepth) + "s" + strings.Repeat(")", pdepth)
		sig = "m"
		body = append(sigString(inner), sigString("x")...)
	case "deep-list-sig":
		d := rapid.IntRange(1, 300).Draw(t, "ld")
		sig = strings.Repeat("[", d) + "i" + strings.Repeat("]", d)
		body = bytes.Repeat(u32(rapid.SampledFrom([]uint32{1, 1, 2, 4096, 0x00FFFFFF}).Draw(t, "perlevel2")), d+1)
	case "struct-tower":
		sig = strings.Repeat("(", pdepth) + "i" + strings.Repeat(")<S,a>", pdepth)
		body = []byte{1, 0, 0, 0}
	case "sig-container-tower":
		// thousands of nested lists or maps in a signature (the parser is linear
		// in them: whatever is kept per level must not grow with the level)
		sig = containerTower(rapid.SampledFrom([]string{"[", "{i", "{s"}).Draw(t, "sigopen"), rapid.IntRange(max/8, max/3).Draw(t, "sigdepth"))
		body = []byte{0, 0, 0, 0}
	}
	switch c.Entry {
	case "sigparse":
		return []byte(sig)
	case "typed":
		c.Sig = sig
		if _, err := ref.ParseSig(sig); err != nil {
			c.Sig = "[m]"
		}
		return body
	case "value", "capmap", "reflect":
		v := body
		if sig != "m" {
			v = append(sigString(sig), body...)
		}
		if c.Entry == "capmap" {
			return append(u32(1), append(sigString("k"), v...)...)
		}
		if c.Entry == "reflect" {
			c.Sig = "m"
		}
		return v
	case "idlparse":
		d := rapid.IntRange(1, 200).Draw(t, "idldepth")
		ty := strings.Repeat(rapid.SampledFrom([]string{"Vec<", "Map<str,", "Tuple<"}).Draw(t, "idlopen"), d) + "int32" + strings.Repeat(">", rapid.IntRange(0, d).Draw(t, "closers"))
		return []byte("package p\ninterface I\n\tfn f(a: " + ty + ")\nend\n")
	default:
		// stubs and structured decoders: a dynamic value tower in the payload
		v := body
		if sig != "m" {
			v = append(sigString(sig), body...)
		}
		return v
	}
}

var sigAlphabet = []string{"c", "C", "w", "W", "i", "I", "l", "L", "f", "d", "b", "s", "m", "o", "X", "v", "r", "[", "]", "{", "}", "(", ")", "<", ">", ",", "A", "name", "_", " ", "é", "<T>"}

var idlAlphabet = []string{"package", "interface", "end", "struct", "enum", "fn", "sig", "prop", "->", "(", ")", ":", ",", "<", ">", "//uid:", "//",
	"Vec<", "Map<", "Tuple<", "int32", "str", "any", "obj", "bool", "\n", " ", "=", "1", "a", "Name", "é", "\x00", ".", "..", "-", "_", "Tuple<>", "nothing", "unknown"}

const fallbackIDL = "package p\ninterface I\n\tfn f(a: int32, b: Vec<str>) -> Map<str,S> //uid:100\n\tsig s(a: S) //uid:101\n\tprop p(a: bool) //uid:102\nend\nstruct S\n\ta: int32\n\tb: Vec<Map<str,any>>\nend\n"

var idlCorpus = func() []string {
	out := []string{fallbackIDL}
	for _, p := range []string{"/repo/bus/logger/logger.idl", "/repo/bus/directory/directory.idl", "/repo/examples/space/space.qi.idl", "/repo/examples/pong/ping.qi.idl"} {
		if b, err := os.ReadFile(p); err == nil {
			out = append(out, string(b))
		}
	}
	return out
}()

func mutateText(t *rapid.T, text string, alphabet []string) string {
	n := rapid.IntRange(1, 6).Draw(t, "edits")
	for i := 0; i < n && len(text) > 0; i++ {
		pos := rapid.IntRange(0, len(text)-1).Draw(t, "pos")
		tok := rapid.SampledFrom(alphabet).Draw(t, "tok")
		switch rapid.IntRange(0, 3).Draw(t, "op") {
		case 0:
			text = text[:pos] + tok + text[pos:]
		case 1:
			end := pos + rapid.IntRange(1, 8).Draw(t, "dellen")
			if end > len(text) {
				end = len(text)
			}
			text = text[:pos] + text[end:]
		case 2:
			end := pos + rapid.IntRange(1, 30).Draw(t, "duplen")
			if end > len(text) {
				end = len(text)
			}
			reps := rapid.IntRange(1, 20).Draw(t, "reps")
			text = text[:end] + strings.Repeat(text[pos:end], reps) + text[end:]
		default:
			text = text[:pos] + tok + text[pos+1:]
		}
		if len(text) > maxInput() {
			text = text[:maxInput()]
		}
	}
	return text
}

func genCase(t *rapid.T) Case {
	c := Case{Entry: rapid.SampledFrom(entries).Draw(t, "entry")}
	if acts, ok := stubActions[c.Entry]; ok {
		c.Action = rapid.SampledFrom(acts).Draw(t, "action")
	}
	text := c.Entry == "sigparse" || c.Entry == "idlparse"
	var data []byte
	kinds := []string{"random", "mutated-valid", "mutated-valid", "amplifier", "amplifier"}
	if text {
		kinds = []string{"random", "grammar-mutated", "grammar-mutated", "amplifier"}
	}
	if (c.Entry == "value" || c.Entry == "typed" || c.Entry == "reflect" || c.Entry == "capmap" || c.Entry == "message") && rapid.IntRange(0, 400).Draw(t, "long") == 0 {
		c.Kind = "long-string"
		c.LongLen = rapid.SampledFrom([]int{256 << 10, 1 << 20, 2 << 20}).Draw(t, "longlen")
		if c.Entry == "typed" || c.Entry == "reflect" {
			c.Sig = rapid.SampledFrom([]string{"s", "(is)", "[s]"}).Draw(t, "longsig")
			if c.Entry == "typed" {
				c.Sig = rapid.SampledFrom([]string{"s", "(is)", "[s]", "m"}).Draw(t, "longsigm")
			}
		}
		return c
	}
	switch rapid.SampledFrom(kinds).Draw(t, "kind") {
	case "random":
		c.Kind = "random"
		data = rapid.SliceOfN(rapid.Byte(), 0, maxInput()/4).Draw(t, "bytes")
		switch c.Entry {
		case "typed":
			c.Sig = gen.DrawType(t, typeOpts()).Sig()
		case "reflect":
			c.Sig = reflectSig(t)
			c.Pre = rapid.Bool().Draw(t, "presized")
		}
	case "mutated-valid":
		c.Kind = "mutated-valid"
		valid, fields := validFor(t, &c)
		data = append([]byte{}, valid...)
		if len(fields) > 0 {
			n := rapid.IntRange(1, 2).Draw(t, "nmut")
			for i := 0; i < n; i++ {
				f := fields[rapid.IntRange(0, len(fields)-1).Draw(t, "field")]
				var v uint32
				if rapid.IntRange(0, 4).Draw(t, "rel") == 0 {
					orig := binary.LittleEndian.Uint32(data[f.Off:])
					v = uint32(int64(orig) + int64(rapid.SampledFrom([]int{-1, 1, 2, 100}).Draw(t, "delta")))
				} else {
					v = rapid.SampledFrom(hostile).Draw(t, "hostile")
				}
				binary.LittleEndian.PutUint32(data[f.Off:], v)
				c.Kind = "mutated-valid:" + string(f.Kind)
			}
		} else {
			c.Kind = "valid"
		}
		if rapid.IntRange(0, 5).Draw(t, "pad") == 0 { // room after a grown length field
			data = append(data, rapid.SliceOfN(rapid.Byte(), 0, 256).Draw(t, "padding")...)
		}
	case "amplifier":
		data = amplifier(t, &c)
	case "grammar-mutated":
		c.Kind = "grammar-mutated"
		if c.Entry == "sigparse" {
			o := typeOpts()
			o.Leaves = append(o.Leaves, ref.KObject, ref.KUnknown)
			o.Depth = 4
			data = []byte(mutateText(t, gen.DrawType(t, o).Sig(), sigAlphabet))
		} else if rapid.IntRange(0, 4).Draw(t, "pkgclause") == 0 {
			// the package clause has a token class of its own (dots and dashes):
			// name pieces and separators in any order ahead of any body
			n := rapid.IntRange(0, 6).Draw(t, "pieces")
			name := ""
			for i := 0; i < n; i++ {
				name += rapid.SampledFrom([]string{"a", "qi", "v5", "B_1", ".", ".", "..", "-", "_", " ", "\t", "9", "é", "\x00", "//", "\n"}).Draw(t, "piece")
			}
			body := rapid.SampledFrom([]string{"", "\n", "\ninterface I\n\tfn f()\nend\n", "\nstruct S\n\ta: int32\nend\n", " // c\n"}).Draw(t, "pkgbody")
			data = []byte("package " + name + body)
		} else {
			data = []byte(mutateText(t, rapid.SampledFrom(idlCorpus).Draw(t, "corpus"), idlAlphabet))
		}
	}
	limit := maxInput()
	if strings.HasPrefix(c.Kind, "amplifier") {
		limit = ampMax()
	}
	if len(data) > limit {
		data = data[:limit]
	}
	c.Hex = hex.EncodeToString(data)
	return c
}

// excluded reports whether a case falls in a class listed as a known finding
// and must be left out by construction.
func excluded(c Case, data []byte) string {
	if vt.Known("C07:sigparse:paren-nesting") {
		if parenDepth(data) > maxParenDepthKnown || parenDepth([]byte(c.Sig)) > maxParenDepthKnown || parenCount(data) > 40 {
			return "C07:sigparse:paren-nesting"
		}
	}
	return ""
}

// ---------------------------------------------------------------------------
// the oracle

var polluted bool // a timed-out case left a goroutine running: allocation figures are no longer attributable

type result struct {
	out      outcome
	panicked interface{}
	stack    string
	dur      time.Duration
	alloc    uint64
	timedOut bool
}

func measure(c Case, data []byte) result {
	var before, after runtime.MemStats
	res := result{}
	done := make(chan struct{})
	runtime.ReadMemStats(&before)
	start := time.Now()
	go func() {
		defer close(done)
		defer func() {
			if p := recover(); p != nil {
				res.panicked = p
				buf := make([]byte, 4096)
				res.stack = string(buf[:runtime.Stack(buf, false)])
			}
		}()
		res.out = run(c, data)
	}()
	timer := time.NewTimer(timeBudget)
	defer timer.Stop()
	select {
	case <-done:
	case <-timer.C:
		res.timedOut = true
		polluted = true
		return res
	}
	res.dur = time.Since(start)
	runtime.ReadMemStats(&after)
	res.alloc = after.TotalAlloc - before.TotalAlloc
	return res
}

func classOf(c Case, what string) string {
	k := c.Kind
	if i := strings.IndexByte(k, ':'); i >= 0 && strings.HasPrefix(k, "mutated-valid") {
		k = k[i+1:]
	}
	return fmt.Sprintf("C07:%s:%s:%s", c.Entry, what, k)
}

func checkCase(c Case) error {
	data, err := hex.DecodeString(c.Hex)
	if err != nil {
		return vt.Violationf("C07:bad-case", "hex: %v", err)
	}
	if c.LongLen > 0 {
		data = longData(c, c.LongLen)
	}
	if cls := excluded(c, data); cls != "" {
		vt.Excluded(cls)
		return nil
	}
	vt.Journal(prop, "TestCampaign", classOf(c, "process-died"), c)
	res := measure(c, data)
	vt.JournalDone(prop, "TestCampaign")
	short := c.Hex
	if len(short) > 160 {
		short = short[:160] + "..."
	}
	if res.panicked != nil {
		return vt.Violationf(classOf(c, "panic"), "%s (sig %q action %d) panicked on %d bytes %s: %v\n%s", c.Entry, c.Sig, c.Action, len(data), short, res.panicked, res.stack)
	}
	if res.timedOut {
		if os.Getenv("VERIF_REPLAY") == "" {
			// the runaway goroutine keeps burning CPU (and memory) for ever: shrinking
			// would pile up more of them. Save the case as it is and leave at once.
			v := vt.Violationf(classOf(c, "time"), "%s (sig %q action %d) did not return within %v on %d bytes %s", c.Entry, c.Sig, c.Action, timeBudget, len(data), short)
			path := vt.SaveFailure(prop, "TestCampaign", c, v)
			vt.Flush()
			fmt.Printf("VIOLATION-CASE property=%s test=TestCampaign class=%s file=%s: %s\n", prop, v.Class, path, v.Msg)
			os.Exit(1)
		}
		return vt.Violationf(classOf(c, "time"), "%s (sig %q action %d) did not return within %v on %d bytes %s", c.Entry, c.Sig, c.Action, timeBudget, len(data), short)
	}
	perByte := allocPerByteBinary
	if c.Entry == "sigparse" || c.Entry == "idlparse" {
		perByte = allocPerByteText
	}
	budget := uint64(allocConstant + perByte*len(data))
	if res.alloc > budget && !polluted {
		return vt.Violationf(classOf(c, "alloc"), "%s (sig %q action %d) allocated %d bytes for a %d byte input (budget %d): %s", c.Entry, c.Sig, c.Action, res.alloc, len(data), budget, short)
	}
	// Towers of nested lists: the first half of the input is a tower of half
	// the depth, cut in mid-air like the whole one. Whatever a decoder does per
	// level, twice the depth may cost about twice as much, not four times
	// (copies or messages growing with the depth make it quadratic long before
	// the absolute budget notices).
	if c.Kind == "amplifier:list-tower" && len(data) >= 4096 && !polluted {
		half := measure(c, data[:len(data)/2])
		if !half.timedOut && half.panicked == nil && res.alloc > 8<<20 && res.alloc > 3*half.alloc+(4<<20) {
			return vt.Violationf(classOf(c, "superlinear-alloc"), "%s (sig %q action %d) allocated %d bytes for a %d byte tower of nested lists but %d bytes for its first half: more than linear in the depth: %s", c.Entry, c.Sig, c.Action, res.alloc, len(data), half.alloc, short)
		}
		// (no such relation on wall-clock time: one garbage collection or a busy
		// machine is enough to break it)
		vt.Label("tower-scaling-checked")
	}
	// Towers of nested containers in a signature: the same relation, against a
	// well-formed tower of half the depth
	if c.Kind == "amplifier:sig-container-tower" && c.Entry == "sigparse" && len(data) >= 4096 && !polluted {
		open := "["
		if data[0] == '{' {
			open = string(data[:2])
		}
		d := strings.Count(string(data), open[:1])
		half := measure(c, []byte(containerTower(open, d/2)))
		if !half.timedOut && half.panicked == nil && res.alloc > 8<<20 && res.alloc > 3*half.alloc+(4<<20) {
			return vt.Violationf(classOf(c, "superlinear-alloc"), "%s allocated %d bytes for a signature of %d nested containers (%d bytes) but %d bytes for one of half the depth: more than linear in the depth: %s", c.Entry, res.alloc, d, len(data), half.alloc, short)
		}
		vt.Label("sig-tower-scaling-checked")
	}
	// One long string: twice the length may cost about twice as much
	if c.LongLen > 0 && !polluted {
		half := measure(c, longData(c, c.LongLen/2))
		if !half.timedOut && half.panicked == nil && res.alloc > 16<<20 && res.alloc > 3*half.alloc+(8<<20) {
			return vt.Violationf(classOf(c, "superlinear-alloc"), "%s (sig %q) allocated %d bytes for a string of %d bytes but %d bytes for one of half the length: more than linear in the length", c.Entry, c.Sig, res.alloc, c.LongLen, half.alloc)
		}
		if res.alloc > uint64(64<<20+40*c.LongLen) {
			return vt.Violationf(classOf(c, "alloc"), "%s (sig %q) allocated %d bytes for a string of %d bytes", c.Entry, c.Sig, res.alloc, c.LongLen)
		}
		vt.Label("long-string-scaling-checked")
	}
	nontrivial := res.out.consumed >= 8 || res.out.accepted || res.out.replies > 0
	labels := []string{"entry=" + c.Entry, "kind=" + c.Kind}
	if res.out.accepted {
		labels = append(labels, "accepted")
	}
	if res.dur > time.Second {
		labels = append(labels, "slow>1s")
		vt.Note("slow case: %s %s took %v on %d bytes", c.Entry, c.Kind, res.dur, len(data))
	}
	if res.alloc > budget/4 {
		labels = append(labels, "alloc>budget/4")
	}
	vt.Case(nontrivial, c.Entry+c.Sig+fmt.Sprint(c.Action)+c.Hex, labels...)
	if nontrivial {
		vt.Sample("input", map[string]interface{}{"entry": c.Entry, "sig": c.Sig, "action": c.Action, "kind": c.Kind, "len": len(data), "hex": short})
	}
	return nil
}

func TestCampaign(t *testing.T) { vt.Run(t, prop, "TestCampaign", genCase, checkCase) }

func TestReplay(t *testing.T) {
	vt.Replay(t, map[string]func(json.RawMessage) error{"TestCampaign": vt.Decode(checkCase)})
}
