package c07total

import (
	"encoding/hex"
	"testing"

	"verif/harness/gen"
	"verif/harness/ref"
)

// FuzzEntries (thorough tier): the C07 oracle (no panic, time and allocation
// budgets) under coverage guidance, over every entry point.
func FuzzEntries(f *testing.F) {
	for i := 0; i < 16; i++ {
		d := gen.Dyn(gen.DefaultValueOpts()).Example(i)
		b := ref.EncodeDyn(d)
		f.Add(uint8(1), uint8(0), b)                                                 // value
		f.Add(uint8(6), uint8(0), append([]byte{1, 0, 0, 0, 1, 0, 0, 0, 'k'}, b...)) // capmap
		f.Add(uint8(9), uint8(5), b)                                                 // stub:object property
	}
	f.Add(uint8(12), uint8(0), []byte("((((((((((((((((((((((((i))))))))))))))))))))))))"))
	f.Add(uint8(13), uint8(0), []byte(fallbackIDL))
	f.Add(uint8(3), uint8(0), []byte{1, 0, 0, 0, 0xff, 0xff, 0xff, 0xff, 0xff, 0xff, 0xff, 0xff})
	f.Fuzz(func(t *testing.T, entry uint8, action uint8, data []byte) {
		if len(data) > 1<<14 {
			return
		}
		c := Case{Entry: entries[int(entry)%len(entries)], Kind: "fuzz", Hex: hex.EncodeToString(data)}
		if acts, ok := stubActions[c.Entry]; ok {
			c.Action = acts[int(action)%len(acts)]
		}
		switch c.Entry {
		case "typed":
			c.Sig = typedSigs[int(action)%len(typedSigs)]
		case "reflect":
			c.Sig = reflectSigs[int(action)%len(reflectSigs)]
			c.Pre = action&0x80 != 0
		}
		if err := checkCase(c); err != nil {
			t.Fatal(err)
		}
	})
}

var typedSigs = []string{"m", "[m]", "{sm}", "(s[i]{sm})", "[[s]]", "[(sI)]", "[v]", "{vv}", "([m])<S,a>"}
