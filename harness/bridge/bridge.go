// Package bridge converts between the harness's abstract values (package ref)
// and the library's own representations (value.Value, Go reflect values).
package bridge

import (
	"bytes"
	"fmt"
	"reflect"
	"strings"

	"github.com/lugu/qiloop/type/basic"
	"github.com/lugu/qiloop/type/value"
	"verif/harness/ref"
)

// ToValue builds the library's value.Value for an abstract dynamic value,
// using the dedicated constructor where one exists and value.Opaque (with the
// reference encoding as data) for everything else.
func ToValue(d ref.Dyn) value.Value {
	switch d.T.Kind {
	case ref.KBool:
		return value.Bool(d.V.(bool))
	case ref.KInt8:
		return value.Int8(d.V.(int8))
	case ref.KUint8:
		return value.Uint8(d.V.(uint8))
	case ref.KInt16:
		return value.Int16(d.V.(int16))
	case ref.KUint16:
		return value.Uint16(d.V.(uint16))
	case ref.KInt32:
		return value.Int(d.V.(int32))
	case ref.KUint32:
		return value.Uint(d.V.(uint32))
	case ref.KInt64:
		return value.Long(d.V.(int64))
	case ref.KUint64:
		return value.Ulong(d.V.(uint64))
	case ref.KFloat32:
		return value.Float(d.V.(float32))
	case ref.KString:
		return value.String(d.V.(string))
	case ref.KRaw:
		return value.Raw(d.V.([]byte))
	case ref.KVoid:
		return value.Void()
	case ref.KList:
		if d.T.Elem.Kind == ref.KValue {
			l := d.V.(ref.List)
			vs := make([]value.Value, len(l))
			for i, e := range l {
				vs[i] = ToValue(e.(ref.Dyn))
			}
			return value.List(vs)
		}
	}
	return value.Opaque(d.T.Sig(), ref.Encode(d.T, d.V))
}

// Ctor names the constructor ToValue uses.
func Ctor(d ref.Dyn) string {
	switch d.T.Kind {
	case ref.KList:
		if d.T.Elem.Kind == ref.KValue {
			return "List"
		}
		return "Opaque"
	case ref.KFloat64, ref.KMap, ref.KTuple, ref.KStruct, ref.KObject, ref.KValue:
		return "Opaque"
	case ref.KRaw:
		return "Raw"
	case ref.KVoid:
		return "Void"
	}
	return "Scalar:" + d.T.Sig()
}

// FromValue maps a library value back to an abstract dynamic value using only
// the value's public surface (Signature and Write) and the reference decoder.
func FromValue(v value.Value) (ref.Dyn, error) {
	var buf bytes.Buffer
	if err := v.Write(&buf); err != nil {
		return ref.Dyn{}, fmt.Errorf("Write: %w", err)
	}
	x, n, err := ref.Decode(ref.Scalar(ref.KValue), buf.Bytes())
	if err != nil {
		return ref.Dyn{}, fmt.Errorf("reference decoder rejects the value's own encoding: %w", err)
	}
	if n != buf.Len() {
		return ref.Dyn{}, fmt.Errorf("value's own encoding has %d trailing bytes", buf.Len()-n)
	}
	return x.(ref.Dyn), nil
}

// ---------------------------------------------------------------------------
// Go values for the reflection codec and the converter.

var valueIface = reflect.TypeOf((*value.Value)(nil)).Elem()

// GoNamer decides the Go field name of a struct member.
type GoNamer func(t *ref.Type, i int) string

// DefaultNamer mirrors what generated code declares: exported, cleaned names;
// tuples use P<i>.
func DefaultNamer(t *ref.Type, i int) string {
	if t.Kind == ref.KStruct {
		n := strings.Title(t.Fields[i])
		return n
	}
	return fmt.Sprintf("P%d", i)
}

// GoType builds the Go type mirroring generated code for a signature type:
// fixed-width scalars, string, bool, slices, maps, structs, value.Value for m.
func GoType(t *ref.Type, namer GoNamer) reflect.Type {
	if namer == nil {
		namer = DefaultNamer
	}
	switch t.Kind {
	case ref.KInt8:
		return reflect.TypeOf(int8(0))
	case ref.KUint8:
		return reflect.TypeOf(uint8(0))
	case ref.KInt16:
		return reflect.TypeOf(int16(0))
	case ref.KUint16:
		return reflect.TypeOf(uint16(0))
	case ref.KInt32:
		return reflect.TypeOf(int32(0))
	case ref.KUint32:
		return reflect.TypeOf(uint32(0))
	case ref.KInt64:
		return reflect.TypeOf(int64(0))
	case ref.KUint64:
		return reflect.TypeOf(uint64(0))
	case ref.KFloat32:
		return reflect.TypeOf(float32(0))
	case ref.KFloat64:
		return reflect.TypeOf(float64(0))
	case ref.KBool:
		return reflect.TypeOf(false)
	case ref.KString:
		return reflect.TypeOf("")
	case ref.KValue:
		return valueIface
	case ref.KList:
		return reflect.SliceOf(GoType(t.Elem, namer))
	case ref.KMap:
		return reflect.MapOf(GoType(t.Key, namer), GoType(t.Elem, namer))
	case ref.KTuple, ref.KStruct:
		fields := make([]reflect.StructField, len(t.Members))
		for i, m := range t.Members {
			fields[i] = reflect.StructField{Name: namer(t, i), Type: GoType(m, namer)}
		}
		return reflect.StructOf(fields)
	}
	panic("bridge.GoType: no Go type for " + t.Sig())
}

// ToGo builds the Go value (of type GoType(t)) for an abstract value.
func ToGo(t *ref.Type, v interface{}, namer GoNamer) reflect.Value {
	gt := GoType(t, namer)
	switch t.Kind {
	case ref.KValue:
		rv := reflect.New(gt).Elem()
		rv.Set(reflect.ValueOf(ToValue(v.(ref.Dyn))))
		return rv
	case ref.KList:
		l := v.(ref.List)
		rv := reflect.MakeSlice(gt, len(l), len(l))
		for i, e := range l {
			rv.Index(i).Set(ToGo(t.Elem, e, namer))
		}
		return rv
	case ref.KMap:
		m := v.(ref.Map)
		rv := reflect.MakeMapWithSize(gt, len(m))
		for _, kv := range m {
			rv.SetMapIndex(ToGo(t.Key, kv.K, namer), ToGo(t.Elem, kv.V, namer))
		}
		return rv
	case ref.KTuple, ref.KStruct:
		tu := v.(ref.Tuple)
		rv := reflect.New(gt).Elem()
		for i, m := range t.Members {
			rv.Field(i).Set(ToGo(m, tu[i], namer))
		}
		return rv
	default:
		rv := reflect.New(gt).Elem()
		rv.Set(reflect.ValueOf(v).Convert(gt))
		return rv
	}
}

// FromGo maps a Go value back to an abstract value of type t. Struct fields
// are taken by position.
func FromGo(t *ref.Type, rv reflect.Value) (interface{}, error) {
	switch t.Kind {
	case ref.KInt8:
		return int8(rv.Int()), nil
	case ref.KInt16:
		return int16(rv.Int()), nil
	case ref.KInt32:
		return int32(rv.Int()), nil
	case ref.KInt64:
		return rv.Int(), nil
	case ref.KUint8:
		return uint8(rv.Uint()), nil
	case ref.KUint16:
		return uint16(rv.Uint()), nil
	case ref.KUint32:
		return uint32(rv.Uint()), nil
	case ref.KUint64:
		return rv.Uint(), nil
	case ref.KFloat32:
		// not through rv.Float(): float32 -> float64 -> float32 quiets a signalling
		// NaN on this hardware (Convert between float32 types copies the bits)
		if rv.CanInterface() {
			return rv.Convert(reflect.TypeOf(float32(0))).Interface().(float32), nil
		}
		return float32(rv.Float()), nil
	case ref.KFloat64:
		return rv.Float(), nil
	case ref.KBool:
		return rv.Bool(), nil
	case ref.KString:
		return rv.String(), nil
	case ref.KValue:
		// the library's own Go type for m is *interface{}: look through
		for (rv.Kind() == reflect.Ptr || rv.Kind() == reflect.Interface) && !rv.IsNil() {
			if _, ok := rv.Interface().(value.Value); ok {
				break
			}
			rv = rv.Elem()
		}
		if (rv.Kind() == reflect.Ptr || rv.Kind() == reflect.Interface) && rv.IsNil() {
			return nil, fmt.Errorf("nil value.Value")
		}
		vv, ok := rv.Interface().(value.Value)
		if !ok {
			return nil, fmt.Errorf("not a value.Value: %v", rv.Type())
		}
		return FromValue(vv)
	case ref.KList:
		l := make(ref.List, rv.Len())
		for i := range l {
			e, err := FromGo(t.Elem, rv.Index(i))
			if err != nil {
				return nil, err
			}
			l[i] = e
		}
		return l, nil
	case ref.KMap:
		m := make(ref.Map, 0, rv.Len())
		iter := rv.MapRange()
		for iter.Next() {
			k, err := FromGo(t.Key, iter.Key())
			if err != nil {
				return nil, err
			}
			v, err := FromGo(t.Elem, iter.Value())
			if err != nil {
				return nil, err
			}
			m = append(m, ref.KV{K: k, V: v})
		}
		return m, nil
	case ref.KTuple, ref.KStruct:
		if rv.NumField() != len(t.Members) {
			return nil, fmt.Errorf("struct has %d fields, want %d", rv.NumField(), len(t.Members))
		}
		tu := make(ref.Tuple, len(t.Members))
		for i, m := range t.Members {
			e, err := FromGo(m, rv.Field(i))
			if err != nil {
				return nil, err
			}
			tu[i] = e
		}
		return tu, nil
	}
	return nil, fmt.Errorf("bridge.FromGo: unsupported %s", t.Sig())
}

// ReadSig reads a signature string with the library's own primitive (used
// where a check needs to skip a value's signature prefix).
func ReadSig(b []byte) (string, []byte, error) {
	r := bytes.NewReader(b)
	s, err := basic.ReadString(r)
	if err != nil {
		return "", nil, err
	}
	return s, b[len(b)-r.Len():], nil
}

// Fill stores the abstract value v of type t into dst, a settable Go value of
// ANY type with the matching shape (struct members are taken by position):
// it is how a value is put into a Go type which the library, not the harness,
// derived from the signature. A shape mismatch is an error.
func Fill(dst reflect.Value, t *ref.Type, v interface{}) (err error) {
	defer func() {
		if r := recover(); r != nil {
			err = fmt.Errorf("cannot store a %s into a %v: %v", t.Sig(), dst.Type(), r)
		}
	}()
	switch t.Kind {
	case ref.KValue:
		dst.Set(reflect.ValueOf(ToValue(v.(ref.Dyn))))
	case ref.KList:
		if dst.Kind() != reflect.Slice {
			return fmt.Errorf("%s is represented by %v, not a slice", t.Sig(), dst.Type())
		}
		l := v.(ref.List)
		s := reflect.MakeSlice(dst.Type(), len(l), len(l))
		for i, e := range l {
			if err := Fill(s.Index(i), t.Elem, e); err != nil {
				return err
			}
		}
		dst.Set(s)
	case ref.KMap:
		if dst.Kind() != reflect.Map {
			return fmt.Errorf("%s is represented by %v, not a map", t.Sig(), dst.Type())
		}
		m := reflect.MakeMap(dst.Type())
		for _, kv := range v.(ref.Map) {
			k := reflect.New(dst.Type().Key()).Elem()
			e := reflect.New(dst.Type().Elem()).Elem()
			if err := Fill(k, t.Key, kv.K); err != nil {
				return err
			}
			if err := Fill(e, t.Elem, kv.V); err != nil {
				return err
			}
			m.SetMapIndex(k, e)
		}
		dst.Set(m)
	case ref.KTuple, ref.KStruct:
		if dst.Kind() != reflect.Struct || dst.NumField() != len(t.Members) {
			return fmt.Errorf("%s is represented by %v, not a struct of %d fields", t.Sig(), dst.Type(), len(t.Members))
		}
		for i, m := range t.Members {
			if err := Fill(dst.Field(i), m, v.(ref.Tuple)[i]); err != nil {
				return err
			}
		}
	default:
		rv := reflect.ValueOf(v)
		if rv.Kind() != dst.Kind() {
			return fmt.Errorf("%s is represented by %v", t.Sig(), dst.Type())
		}
		dst.Set(rv.Convert(dst.Type()))
	}
	return nil
}
