// Package gen holds the rapid generators shared by the property packages:
// types of the signature grammar, abstract values of a type, identifiers,
// byte-level noise. Every random choice goes through rapid so shrinking and
// seed replay work.
package gen

import (
	"fmt"
	"math"
	"strings"

	"pgregory.net/rapid"
	"verif/harness/ref"
)

// TypeOpts controls the shape of generated types.
type TypeOpts struct {
	Depth    int        // maximal nesting depth
	Width    int        // maximal number of tuple/struct members
	Leaves   []ref.Kind // allowed leaf kinds
	MapKeys  []ref.Kind // allowed map key kinds (scalars)
	Structs  bool       // allow named structs
	Tuples   bool       // allow anonymous tuples
	Maps     bool
	Lists    bool
	Template bool // allow template style struct names
	ZeroMem  bool // allow zero-member tuples/structs
	// CompositeKeys: one map key in six is a tuple or struct of one or two
	// MapKeys scalars (the grammar allows any type as a key).
	CompositeKeys bool
	// Wide: one type in three hundred (DrawType, Type) is a tuple or struct of
	// many members (around 32, 64, 128, 256: where bit sets, small arrays and
	// one-byte counters end), each a scalar or a container of scalars, by itself
	// or as the element of a list, the value of a map or a member of a tuple.
	Wide bool
	// WideOneIn: how rare a wide type is (0: one in three hundred)
	WideOneIn int
}

// AllScalars are the sixteen scalar kinds that have a fixed encoding plus s.
var AllScalars = []ref.Kind{ref.KInt8, ref.KUint8, ref.KInt16, ref.KUint16, ref.KInt32, ref.KUint32,
	ref.KInt64, ref.KUint64, ref.KFloat32, ref.KFloat64, ref.KBool, ref.KString}

// KeyScalars are kinds usable as Go map keys with a deterministic equality
// (floats are left out: NaN keys cannot be looked up).
var KeyScalars = []ref.Kind{ref.KInt8, ref.KUint8, ref.KInt16, ref.KUint16, ref.KInt32, ref.KUint32,
	ref.KInt64, ref.KUint64, ref.KBool, ref.KString}

// DefaultOpts is a medium sized configuration.
func DefaultOpts() TypeOpts {
	return TypeOpts{Depth: 3, Width: 4, Leaves: append(append([]ref.Kind{}, AllScalars...), ref.KValue),
		MapKeys: KeyScalars, Structs: true, Tuples: true, Maps: true, Lists: true, Template: true, ZeroMem: true}
}

// Ident generates identifiers of the signature grammar: [A-Za-z][0-9A-Za-z_]*.
func Ident() *rapid.Generator[string] {
	return rapid.OneOf(
		rapid.SampledFrom([]string{"a", "b", "x", "name", "Point", "value", "uid", "P0", "data_1", "Info", "T"}),
		rapid.StringMatching(`[A-Za-z][0-9A-Za-z_]{0,7}`),
	)
}

// StructName generates a struct name, sometimes template style.
func StructName(template bool) *rapid.Generator[string] {
	return rapid.Custom(func(t *rapid.T) string {
		n := Ident().Draw(t, "sname")
		if template && rapid.IntRange(0, 5).Draw(t, "tmpl") == 0 {
			n += "<" + Ident().Draw(t, "targ") + ">"
		}
		return n
	})
}

// Type generates a type of the grammar.
func Type(o TypeOpts) *rapid.Generator[*ref.Type] {
	return rapid.Custom(func(t *rapid.T) *ref.Type {
		return DrawType(t, o)
	})
}

func drawType(t *rapid.T, o TypeOpts, depth int) *ref.Type {
	kinds := []string{"leaf"}
	if depth > 0 {
		kinds = append(kinds, "leaf") // keep leaves frequent so cases stay small
		if o.Lists {
			kinds = append(kinds, "list")
		}
		if o.Maps {
			kinds = append(kinds, "map")
		}
		if o.Tuples {
			kinds = append(kinds, "tuple")
		}
		if o.Structs {
			kinds = append(kinds, "struct")
		}
	}
	switch rapid.SampledFrom(kinds).Draw(t, "kind") {
	case "list":
		return ref.ListOf(drawType(t, o, depth-1))
	case "map":
		k := ref.Scalar(rapid.SampledFrom(o.MapKeys).Draw(t, "key"))
		if o.CompositeKeys && rapid.IntRange(0, 5).Draw(t, "compositekey") == 0 {
			n := rapid.IntRange(1, 2).Draw(t, "keymembers")
			ms := make([]*ref.Type, n)
			fs := make([]string, n)
			for i := range ms {
				ms[i] = ref.Scalar(rapid.SampledFrom(o.MapKeys).Draw(t, "keymember"))
				fs[i] = fmt.Sprintf("k%d", i)
			}
			if o.Structs && rapid.Bool().Draw(t, "structkey") {
				k = ref.StructOf(StructName(false).Draw(t, "keyname"), fs, ms)
			} else {
				k = ref.TupleOf(ms...)
			}
		}
		return ref.MapOf(k, drawType(t, o, depth-1))
	case "tuple":
		min := 1
		if o.ZeroMem {
			min = 0
		}
		n := rapid.IntRange(min, o.Width).Draw(t, "n")
		md := depth - 1
		ms := make([]*ref.Type, n)
		for i := range ms {
			ms[i] = drawType(t, o, md)
		}
		return ref.TupleOf(ms...)
	case "struct":
		min := 1
		if o.ZeroMem {
			min = 0
		}
		n := rapid.IntRange(min, o.Width).Draw(t, "n")
		md := depth - 1
		ms := make([]*ref.Type, n)
		fs := make([]string, n)
		seen := map[string]bool{}
		for i := range ms {
			ms[i] = drawType(t, o, md)
			f := Ident().Draw(t, "field")
			for seen[strings.ToLower(f)] {
				f += "x"
			}
			seen[strings.ToLower(f)] = true
			fs[i] = f
		}
		return ref.StructOf(StructName(o.Template).Draw(t, "name"), fs, ms)
	default:
		return ref.Scalar(rapid.SampledFrom(o.Leaves).Draw(t, "leaf"))
	}
}

var wideCounts = []int{17, 31, 32, 33, 63, 64, 65, 66, 70, 100, 127, 128, 129, 200, 255, 256, 257}

// ValueOpts bounds generated values.
type ValueOpts struct {
	MaxLen   int        // maximal list/map/string length
	DynDepth int        // how deep dynamic values may nest
	DynTypes TypeOpts   // types used inside dynamic values
	NoRaw    bool       // never generate raw dynamic values
	DynLeaf  []ref.Kind // leaf kinds of dynamic values (defaults to constructors)
	LongRaw  bool       // now and then a raw buffer of several thousand bytes (around 4096 and 8192)
	LongList bool       // now and then a list or map of 100..300 entries (of one kind of dynamic value when the elements are dynamic)
	// AnyBits: floats are also drawn as arbitrary bit patterns, signalling NaNs
	// included. Only for paths which never convert between float32 and float64
	// (the hardware quiets a signalling NaN there, in the harness's own reflect
	// bridge as well): dynamic values and the reference codec.
	AnyBits bool
}

// DefaultValueOpts is a small configuration.
func DefaultValueOpts() ValueOpts {
	o := DefaultOpts()
	o.Depth = 2
	o.Width = 3
	return ValueOpts{MaxLen: 4, DynDepth: 2, DynTypes: o}
}

var float32Specials = []uint32{0, 0x80000000, 0x7f800000, 0xff800000, 0x7fc00000, 0x7fc00001, 0xffc00000, 0x00000001, 0x7f7fffff, 0x3f800000}
// signalling NaNs (exponent all ones, quiet bit clear, fraction non-zero)
var float32Signalling = []uint32{0x7f800001, 0x7fa00000, 0xff812345, 0xffbfffff, 0x7f900000}
var float64Signalling = []uint64{0x7ff0000000000001, 0x7ff4000000000000, 0xfff0000012345678, 0xfff7ffffffffffff}
var float64Specials = []uint64{0, 0x8000000000000000, 0x7ff0000000000000, 0xfff0000000000000, 0x7ff8000000000000, 0x7ff8000000000001, 1, 0x7fefffffffffffff, 0x3ff0000000000000}

// Str generates strings: empty, ascii, multi-byte.
func Str(maxLen int) *rapid.Generator[string] {
	return rapid.OneOf(
		// now and then a long string: buffering thresholds (128, 256, 4096...)
		// are crossed only by inputs longer than the usual few bytes
		rapid.Custom(func(t *rapid.T) string {
			if rapid.IntRange(0, 11).Draw(t, "long") != 0 {
				return rapid.StringN(0, maxLen, -1).Draw(t, "short")
			}
			n := rapid.SampledFrom([]int{127, 128, 129, 255, 256, 257, 1000, 4097}).Draw(t, "longlen")
			b := make([]byte, n)
			seed := rapid.Byte().Draw(t, "fill")
			for i := range b {
				b[i] = 'a' + (seed+byte(i*7))%26
			}
			return string(b)
		}),
		rapid.SampledFrom([]string{"", "a", "hello", "é", "日本語", "\x00", "a\x00b", "\xff\xfe"}),
		rapid.StringN(0, maxLen, -1),
		rapid.Map(rapid.SliceOfN(rapid.Byte(), 0, maxLen), func(b []byte) string { return string(b) }),
	)
}

// Value generates an abstract value of type ty.
func Value(ty *ref.Type, o ValueOpts) *rapid.Generator[interface{}] {
	return rapid.Custom(func(t *rapid.T) interface{} {
		rapid.Bool().Draw(t, "_") // a Custom generator must consume data even for zero-width types
		return drawValue(t, ty, o, o.DynDepth)
	})
}

// DrawValue draws a value of type ty directly.
func DrawValue(t *rapid.T, ty *ref.Type, o ValueOpts) interface{} {
	return drawValue(t, ty, o, o.DynDepth)
}

// DrawType draws a type directly.
func DrawType(t *rapid.T, o TypeOpts) *ref.Type {
	oneIn := o.WideOneIn
	if oneIn <= 0 {
		oneIn = 300
	}
	if o.Wide && o.Depth >= 1 && (o.Tuples || o.Structs) && rapid.IntRange(0, oneIn-1).Draw(t, "wide") == 0 {
		return drawWide(t, o)
	}
	return drawType(t, o, o.Depth)
}

func drawWide(t *rapid.T, o TypeOpts) *ref.Type {
	n := rapid.SampledFrom(wideCounts).Draw(t, "widen")
	md := o.Depth - 1
	if md > 1 {
		md = 1
	}
	narrow := o
	narrow.Width = 2
	ms := make([]*ref.Type, n)
	fs := make([]string, n)
	for i := range ms {
		ms[i] = drawType(t, narrow, md)
		fs[i] = fmt.Sprintf("m%d%s", i, Ident().Draw(t, "field"))
	}
	var w *ref.Type
	if o.Structs && (!o.Tuples || rapid.Bool().Draw(t, "widestruct")) {
		w = ref.StructOf(StructName(o.Template).Draw(t, "name"), fs, ms)
	} else {
		w = ref.TupleOf(ms...)
	}
	if o.Depth < 2 {
		return w
	}
	switch rapid.SampledFrom([]string{"bare", "bare", "list", "map", "tuple"}).Draw(t, "around") {
	case "list":
		if o.Lists {
			return ref.ListOf(w)
		}
	case "map":
		if o.Maps {
			return ref.MapOf(ref.Scalar(rapid.SampledFrom(o.MapKeys).Draw(t, "key")), w)
		}
	case "tuple":
		if o.Tuples {
			return ref.TupleOf(ref.Scalar(rapid.SampledFrom(o.Leaves).Draw(t, "leaf")), w)
		}
	}
	return w
}

// DrawDyn draws a dynamic value directly.
func DrawDyn(t *rapid.T, o ValueOpts) ref.Dyn { return drawDyn(t, o, o.DynDepth) }

func drawValue(t *rapid.T, ty *ref.Type, o ValueOpts, dyn int) interface{} {
	switch ty.Kind {
	case ref.KInt8:
		return rapid.Int8().Draw(t, "c")
	case ref.KUint8:
		return rapid.Uint8().Draw(t, "C")
	case ref.KInt16:
		return rapid.Int16().Draw(t, "w")
	case ref.KUint16:
		return rapid.Uint16().Draw(t, "W")
	case ref.KInt32:
		return rapid.Int32().Draw(t, "i")
	case ref.KUint32:
		return rapid.Uint32().Draw(t, "I")
	case ref.KInt64:
		return rapid.Int64().Draw(t, "l")
	case ref.KUint64:
		return rapid.Uint64().Draw(t, "L")
	case ref.KFloat32:
		if o.AnyBits {
			switch rapid.IntRange(0, 7).Draw(t, "fbitskind") {
			case 0:
				return math.Float32frombits(rapid.SampledFrom(float32Signalling).Draw(t, "fsnan"))
			case 1:
				return math.Float32frombits(rapid.Uint32().Draw(t, "fanybits"))
			case 2: // a NaN with an arbitrary payload and quiet bit
				return math.Float32frombits(0x7f800000 | rapid.Uint32().Draw(t, "fnanbits"))
			}
		}
		if rapid.IntRange(0, 3).Draw(t, "fspecial") == 0 {
			return math.Float32frombits(rapid.SampledFrom(float32Specials).Draw(t, "fbits"))
		}
		return rapid.Float32().Draw(t, "f")
	case ref.KFloat64:
		if o.AnyBits {
			switch rapid.IntRange(0, 7).Draw(t, "dbitskind") {
			case 0:
				return math.Float64frombits(rapid.SampledFrom(float64Signalling).Draw(t, "dsnan"))
			case 1:
				return math.Float64frombits(rapid.Uint64().Draw(t, "danybits"))
			case 2:
				return math.Float64frombits(0x7ff0000000000000 | rapid.Uint64().Draw(t, "dnanbits"))
			}
		}
		if rapid.IntRange(0, 3).Draw(t, "dspecial") == 0 {
			return math.Float64frombits(rapid.SampledFrom(float64Specials).Draw(t, "dbits"))
		}
		return rapid.Float64().Draw(t, "d")
	case ref.KBool:
		return rapid.Bool().Draw(t, "b")
	case ref.KString:
		return Str(o.MaxLen*3).Draw(t, "s")
	case ref.KRaw:
		if o.LongRaw && rapid.IntRange(0, 9).Draw(t, "longraw") == 0 {
			n := rapid.SampledFrom([]int{4095, 4096, 4097, 5000, 8191, 8193, 10000}).Draw(t, "rawlen")
			b := make([]byte, n)
			seed := rapid.Byte().Draw(t, "rawfill")
			for i := range b {
				b[i] = seed + byte(i*13)
			}
			return b
		}
		return rapid.SliceOfN(rapid.Byte(), 0, o.MaxLen*4).Draw(t, "r")
	case ref.KVoid:
		return nil
	case ref.KValue:
		return drawDyn(t, o, dyn)
	case ref.KObject:
		return drawValue(t, ref.ObjectRefType, o, dyn)
	case ref.KList:
		n := rapid.IntRange(0, o.MaxLen).Draw(t, "len")
		if o.LongList && rapid.IntRange(0, 39).Draw(t, "longlist") == 0 {
			n = rapid.SampledFrom([]int{99, 100, 101, 150, 300}).Draw(t, "longlen")
			l := make(ref.List, n)
			small := o
			small.MaxLen, small.LongList, small.LongRaw = 1, false, false
			same := ty.Elem.Kind == ref.KValue && rapid.Bool().Draw(t, "samekind")
			var dk ref.Dyn
			if same {
				// all elements of one kind of dynamic value (e.g. a hundred raw buffers)
				k := ref.Scalar(rapid.SampledFrom([]ref.Kind{ref.KRaw, ref.KRaw, ref.KString, ref.KInt32, ref.KVoid}).Draw(t, "elemkind"))
				dk = ref.Dyn{T: k}
			}
			for i := range l {
				if same {
					l[i] = ref.Dyn{T: dk.T, V: drawValue(t, dk.T, small, 0)}
				} else {
					l[i] = drawValue(t, ty.Elem, small, 0)
				}
			}
			return l
		}
		l := make(ref.List, n)
		for i := range l {
			l[i] = drawValue(t, ty.Elem, o, dyn)
		}
		return l
	case ref.KMap:
		n := rapid.IntRange(0, o.MaxLen).Draw(t, "mlen")
		m := make(ref.Map, 0, n)
		seen := map[string]bool{}
		for i := 0; i < n; i++ {
			k := drawValue(t, ty.Key, o, dyn)
			key := ref.Render(k)
			if seen[key] {
				continue // keys must be distinct; fewer entries is fine
			}
			seen[key] = true
			m = append(m, ref.KV{K: k, V: drawValue(t, ty.Elem, o, dyn)})
		}
		return m
	case ref.KTuple, ref.KStruct:
		tu := make(ref.Tuple, len(ty.Members))
		for i, m := range ty.Members {
			tu[i] = drawValue(t, m, o, dyn)
		}
		return tu
	}
	panic("gen.Value: cannot generate a value of " + ty.Sig())
}

// dynScalarKinds are the scalar kinds that have a value constructor or are
// carried opaquely (d).
var dynScalarKinds = []ref.Kind{ref.KBool, ref.KInt8, ref.KUint8, ref.KInt16, ref.KUint16, ref.KInt32, ref.KUint32,
	ref.KInt64, ref.KUint64, ref.KFloat32, ref.KFloat64, ref.KString}

// Dyn generates a dynamic value (the abstract counterpart of value.Value).
func Dyn(o ValueOpts) *rapid.Generator[ref.Dyn] {
	return rapid.Custom(func(t *rapid.T) ref.Dyn {
		return drawDyn(t, o, o.DynDepth)
	})
}

func drawDyn(t *rapid.T, o ValueOpts, dyn int) ref.Dyn {
	choices := []string{"scalar", "scalar", "void"}
	if !o.NoRaw {
		choices = append(choices, "raw")
	}
	if dyn > 0 {
		choices = append(choices, "listm", "listm", "composite", "composite", "composite", "composite")
	}
	switch rapid.SampledFrom(choices).Draw(t, "dyn") {
	case "void":
		return ref.Dyn{T: ref.Scalar(ref.KVoid)}
	case "raw":
		ty := ref.Scalar(ref.KRaw)
		return ref.Dyn{T: ty, V: drawValue(t, ty, o, 0)}
	case "listm":
		ty := ref.ListOf(ref.Scalar(ref.KValue))
		n := rapid.IntRange(0, o.MaxLen).Draw(t, "len")
		l := make(ref.List, n)
		for i := range l {
			l[i] = drawDyn(t, o, dyn-1)
		}
		return ref.Dyn{T: ty, V: l}
	case "composite":
		to := o.DynTypes
		ty := drawType(t, to, to.Depth)
		if ty.IsScalar() {
			ty = ref.ListOf(ty)
		}
		return ref.Dyn{T: ty, V: drawValue(t, ty, o, dyn-1)}
	default:
		kinds := o.DynLeaf
		if kinds == nil {
			kinds = dynScalarKinds
		}
		ty := ref.Scalar(rapid.SampledFrom(kinds).Draw(t, "dk"))
		return ref.Dyn{T: ty, V: drawValue(t, ty, o, 0)}
	}
}

// Plan is a fragmentation plan: chunk sizes cycled over the stream; EOFWith
// says whether the final chunk is returned together with io.EOF.
type Plan struct {
	Chunks  []int `json:"chunks"`
	EOFWith bool  `json:"eof_with_data"`
}

// FragPlan generates a fragmentation plan.
func FragPlan() *rapid.Generator[Plan] {
	return rapid.Custom(func(t *rapid.T) Plan {
		var chunks []int
		switch rapid.IntRange(0, 4).Draw(t, "plankind") {
		case 0:
			chunks = []int{1}
		case 1:
			chunks = []int{1 << 20}
		case 2:
			chunks = rapid.SliceOfN(rapid.IntRange(1, 40), 1, 12).Draw(t, "chunks")
		case 3:
			chunks = rapid.SliceOfN(rapid.SampledFrom([]int{1, 3, 4, 24, 27, 28, 29, 32, 64, 1000}), 1, 8).Draw(t, "chunks")
		default:
			chunks = rapid.SliceOfN(rapid.IntRange(1, 5000), 1, 6).Draw(t, "chunks")
		}
		return Plan{Chunks: chunks, EOFWith: rapid.Bool().Draw(t, "eofwith")}
	})
}
