package gen

import (
	"testing"

	"pgregory.net/rapid"
	"verif/harness/ref"
)

// The reference codec is itself property-tested before it is trusted as an
// oracle: Decode(Encode(v)) == v, consumed == produced, signature printer and
// parser are inverse.
func TestRefCodecRoundTrip(t *testing.T) {
	rapid.Check(t, func(t *rapid.T) {
		o := DefaultOpts()
		ty := Type(o).Draw(t, "type")
		sig := ty.Sig()
		back, err := ref.ParseSig(sig)
		if err != nil || back.Sig() != sig {
			t.Fatalf("ParseSig(%q) = %v, %v", sig, back, err)
		}
		v := Value(ty, DefaultValueOpts()).Draw(t, "value")
		b := ref.Encode(ty, v)
		trailer := rapid.SliceOfN(rapid.Byte(), 0, 5).Draw(t, "trailer")
		v2, n, err := ref.Decode(ty, append(append([]byte{}, b...), trailer...))
		if err != nil {
			t.Fatalf("Decode(%s): %v", sig, err)
		}
		if n != len(b) {
			t.Fatalf("consumed %d of %d", n, len(b))
		}
		if !ref.Equal(v, v2) {
			t.Fatalf("%s: %s != %s", sig, ref.Render(v), ref.Render(v2))
		}
		for k := 0; k < len(b); k++ {
			if _, _, err := ref.Decode(ty, b[:k]); err == nil {
				t.Fatalf("%s: prefix %d of %d accepted", sig, k, len(b))
			}
		}
	})
}
