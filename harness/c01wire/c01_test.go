// Package c01wire decides C01: message framing is lossless, self-delimiting
// and matches the documented 28-byte header layout.
package c01wire

import (
	"bytes"
	"encoding/binary"
	"encoding/hex"
	"encoding/json"
	"fmt"
	"io"
	"testing"
	"time"

	qnet "github.com/lugu/qiloop/bus/net"
	"pgregory.net/rapid"
	"verif/harness/gen"
	"verif/harness/hio"
	"verif/harness/vt"
)

const prop = "C01"

func TestMain(m *testing.M) {
	vt.Watchdog = 30 * time.Second
	vt.Main(m)
}

// Msg describes one message; the payload is either given literally (hex) or is
// PRF(seed) of the given length, so that replay files stay small.
type Msg struct {
	Type    uint8  `json:"type"`
	Flags   uint8  `json:"flags"`
	ID      uint32 `json:"id"`
	Service uint32 `json:"service"`
	Object  uint32 `json:"object"`
	Action  uint32 `json:"action"`
	Len     int    `json:"len"`
	Seed    uint32 `json:"seed"`
	Hex     string `json:"hex,omitempty"`
}

func (m Msg) payload() []byte {
	if m.Hex != "" {
		b, _ := hex.DecodeString(m.Hex)
		return b
	}
	return prf(m.Seed, m.Len)
}

func prf(seed uint32, n int) []byte {
	b := make([]byte, n)
	x := uint64(seed)*2654435761 + 0x9e3779b97f4a7c15
	for i := 0; i < n; i += 8 {
		x ^= x << 13
		x ^= x >> 7
		x ^= x << 17
		var w [8]byte
		binary.LittleEndian.PutUint64(w[:], x)
		copy(b[i:], w[:])
	}
	return b
}

// refHeader is the reference header encoder, written from the documentation:
// big-endian magic, then little-endian id, size, u16 version, u8 type, u8
// flags, service, object, action.
func refHeader(magic, id, size uint32, version uint16, typ, flags uint8, service, object, action uint32) []byte {
	h := make([]byte, 28)
	binary.BigEndian.PutUint32(h[0:], magic)
	binary.LittleEndian.PutUint32(h[4:], id)
	binary.LittleEndian.PutUint32(h[8:], size)
	binary.LittleEndian.PutUint16(h[12:], version)
	h[14] = typ
	h[15] = flags
	binary.LittleEndian.PutUint32(h[16:], service)
	binary.LittleEndian.PutUint32(h[20:], object)
	binary.LittleEndian.PutUint32(h[24:], action)
	return h
}

func (m Msg) wire() []byte {
	p := m.payload()
	return append(refHeader(0x42dead42, m.ID, uint32(len(p)), 0, m.Type, m.Flags, m.Service, m.Object, m.Action), p...)
}

// Invalid describes a header that must be refused.
type Invalid struct {
	Field   string `json:"field"` // magic | version | type | size
	Magic   uint32 `json:"magic"`
	Version uint16 `json:"version"`
	Type    uint8  `json:"type"`
	Size    uint32 `json:"size"`
	Trail   int    `json:"trail"` // payload bytes following the header, which must stay unread
}

// Case is one generated case.
type Case struct {
	Kind    string   `json:"kind"` // roundtrip | invalid | shortwrite | sizemismatch | afterfailure
	Msgs    []Msg    `json:"msgs"`
	Plan    gen.Plan `json:"plan"`
	Invalid *Invalid `json:"invalid,omitempty"`
	Limit   int      `json:"limit,omitempty"`   // shortwrite: bytes accepted per Write
	SizeOff int      `json:"sizeoff,omitempty"` // sizemismatch: Header.Size - len(Payload)
	Fail    string   `json:"fail,omitempty"`    // afterfailure: eof | error | partial-eof | partial-error
	Repeat  int      `json:"repeat,omitempty"`  // afterfailure: how often the failing write is attempted
	Reuse   bool     `json:"reuse,omitempty"`   // roundtrip, invalid: every message is read into the same Message variable
}

var u32 = rapid.OneOf(rapid.SampledFrom([]uint32{0, 1, 2, 0x7fffffff, 0x80000000, 0xffffffff, 0x42dead42, 0x42adde42}), rapid.Uint32())

func genMsg(t *rapid.T, big bool) Msg {
	m := Msg{
		Type:    uint8(rapid.IntRange(1, 8).Draw(t, "type")),
		Flags:   rapid.Uint8().Draw(t, "flags"),
		ID:      u32.Draw(t, "id"),
		Service: u32.Draw(t, "service"),
		Object:  u32.Draw(t, "object"),
		Action:  u32.Draw(t, "action"),
		Seed:    rapid.Uint32().Draw(t, "seed"),
	}
	classes := []string{"zero", "one", "n27", "n28", "n29", "small", "small", "literal", "k64", "pow2", "pow2"}
	if big {
		// the last bytes below the limit, one by one (a bound which counts the
		// header in, or is off by a few, only shows there)
		classes = []string{"max-1", "max", "nearmax", "nearmax", "nearmax", "small"}
	}
	switch rapid.SampledFrom(classes).Draw(t, "plen") {
	case "zero":
		m.Len = 0
	case "one":
		m.Len = 1
	case "n27":
		m.Len = 27
	case "n28":
		m.Len = 28
	case "n29":
		m.Len = 29
	case "small":
		m.Len = rapid.IntRange(2, 600).Draw(t, "len")
	case "literal":
		b := rapid.SliceOfN(rapid.Byte(), 1, 48).Draw(t, "bytes")
		m.Hex = hex.EncodeToString(b)
		m.Len = len(b)
	case "k64":
		m.Len = 65536 + rapid.IntRange(-1, 1).Draw(t, "d")
	case "pow2":
		// around a power of two, within a header's length of it on either side:
		// where buffers of "natural" sizes start and stop fitting
		k := rapid.IntRange(6, 18).Draw(t, "pow")
		m.Len = 1<<k + rapid.IntRange(-34, 34).Draw(t, "around")
		if rapid.IntRange(0, 3).Draw(t, "multiple") == 0 {
			m.Len = (1<<k)*rapid.IntRange(1, 3).Draw(t, "times") + rapid.IntRange(-34, 34).Draw(t, "around2")
		}
	case "nearmax":
		m.Len = int(qnet.MaxPayloadSize) - rapid.IntRange(0, 70).Draw(t, "below")
	case "max-1":
		m.Len = int(qnet.MaxPayloadSize) - 1
	case "max":
		m.Len = int(qnet.MaxPayloadSize)
	}
	return m
}

func genCase(t *rapid.T) Case {
	kind := rapid.SampledFrom([]string{"roundtrip", "roundtrip", "roundtrip", "invalid", "invalid", "shortwrite", "sizemismatch", "afterfailure"}).Draw(t, "kind")
	c := Case{Kind: kind, Plan: gen.FragPlan().Draw(t, "plan")}
	// ten-megabyte messages are slow: one case in four hundred has one (quick: about one in a thousand)
	oneIn := 400
	if !vt.Thorough() {
		oneIn = 500
	}
	// (the library favours small numbers: the remainder of a wide draw is close to uniform)
	big := rapid.Uint32().Draw(t, "big")%uint32(oneIn) == uint32(oneIn-1)
	switch kind {
	case "roundtrip":
		n := rapid.IntRange(1, 6).Draw(t, "n")
		for i := 0; i < n; i++ {
			c.Msgs = append(c.Msgs, genMsg(t, big && i == 0))
		}
		c.Reuse = rapid.Bool().Draw(t, "reuse")
	case "invalid":
		n := rapid.IntRange(0, 2).Draw(t, "n")
		for i := 0; i < n; i++ {
			c.Msgs = append(c.Msgs, genMsg(t, false))
		}
		inv := &Invalid{Magic: 0x42dead42, Version: 0, Type: uint8(rapid.IntRange(1, 8).Draw(t, "itype")),
			Size: uint32(rapid.IntRange(0, 64).Draw(t, "isize")), Trail: rapid.IntRange(0, 100).Draw(t, "trail")}
		inv.Field = rapid.SampledFrom([]string{"magic", "version", "type", "size"}).Draw(t, "field")
		switch inv.Field {
		case "magic":
			inv.Magic = rapid.OneOf(rapid.SampledFrom([]uint32{0x42adde42, 0, 0xffffffff, 0x42dead43, 0x43dead42, 0x42dead00}), rapid.Uint32(),
				rapid.Map(rapid.IntRange(0, 31), func(k int) uint32 { return 0x42dead42 ^ (1 << uint(k)) })).Draw(t, "magic")
			if inv.Magic == 0x42dead42 {
				inv.Magic = 0x42adde42
			}
		case "version":
			// any non-zero version, with the values which differ from zero in one
			// byte or one bit only well represented
			inv.Version = uint16(rapid.OneOf(rapid.IntRange(1, 65535), rapid.SampledFrom([]int{1, 2, 0x80, 0xff, 0x100, 0x200, 0x8000, 0xff00, 0xffff}),
				rapid.Map(rapid.IntRange(1, 255), func(k int) int { return k << 8 })).Draw(t, "version"))
		case "type":
			inv.Type = rapid.OneOf(rapid.Just(uint8(0)), rapid.Uint8Range(9, 255)).Draw(t, "badtype")
		case "size":
			inv.Size = rapid.SampledFrom([]uint32{qnet.MaxPayloadSize + 1, qnet.MaxPayloadSize + 2, 1 << 31, 0xffffffff, 0x7fffffff, 11 * 1024 * 1024}).Draw(t, "badsize")
		}
		c.Invalid = inv
		c.Reuse = rapid.Bool().Draw(t, "reuse")
	case "shortwrite":
		c.Msgs = []Msg{genMsg(t, false)}
		c.Limit = rapid.SampledFrom([]int{1, 2, 3, 4, 7, 27, 28, 29, 100}).Draw(t, "limit")
		if c.Msgs[0].Len > 5000 { // keep the number of Write calls modest
			c.Msgs[0].Len = 5000
			c.Msgs[0].Hex = ""
		}
	case "sizemismatch":
		c.Msgs = []Msg{genMsg(t, false)}
		c.SizeOff = rapid.SampledFrom([]int{-1, 1, 2, 28, -28, 1000}).Draw(t, "sizeoff")
	case "afterfailure":
		// a write that fails, then ordinary writes: the failure must not leak into them
		n := rapid.IntRange(2, 4).Draw(t, "n")
		for i := 0; i < n; i++ {
			c.Msgs = append(c.Msgs, genMsg(t, false))
		}
		c.Fail = rapid.SampledFrom([]string{"eof", "error", "partial-eof", "partial-error"}).Draw(t, "fail")
		c.Limit = rapid.SampledFrom([]int{1, 10, 28, 29}).Draw(t, "part")
		c.Repeat = rapid.IntRange(1, 3).Draw(t, "repeat")
	}
	return c
}

func mkMessage(m Msg) qnet.Message {
	h := qnet.NewHeader(m.Type, m.Service, m.Object, m.Action, m.ID)
	h.Flags = m.Flags
	return qnet.NewMessage(h, m.payload())
}

func checkCase(c Case) error {
	switch c.Kind {
	case "roundtrip":
		return checkRoundTrip(c)
	case "invalid":
		return checkInvalid(c)
	case "shortwrite":
		return checkShortWrite(c)
	case "sizemismatch":
		return checkSizeMismatch(c)
	case "afterfailure":
		return checkAfterFailure(c)
	}
	return vt.Violationf("C01:bad-case", "unknown kind %q", c.Kind)
}

func key(c Case) string { return fmt.Sprintf("%+v", c) }

func lenClass(n int) string {
	switch {
	case n == 0:
		return "payload=0"
	case n < 28:
		return "payload<28"
	case n < 1000:
		return "payload<1000"
	case n < 1<<20:
		return "payload>=1000"
	}
	return "payload>=1MiB"
}

// writeAll writes every message of the case with Message.Write into one
// recording writer and checks the layout clause.
func writeAll(msgs []Msg) ([]byte, error) {
	var stream []byte
	for i, m := range msgs {
		msg := mkMessage(m)
		w := &hio.RecWriter{}
		if err := msg.Write(w); err != nil {
			return nil, vt.Violationf("C01:write-error", "message %d: Write failed: %v", i, err)
		}
		want := m.wire()
		if !bytes.Equal(w.Bytes(), want) {
			return nil, vt.Violationf("C01:layout", "message %d: wire bytes differ from the documented layout\n got  %x\n want %x", i, head(w.Bytes()), head(want))
		}
		if len(w.Calls) != 1 {
			return nil, vt.Violationf("C01:single-write", "message %d: %d Write calls instead of one", i, len(w.Calls))
		}
		stream = append(stream, w.Bytes()...)
	}
	return stream, nil
}

func head(b []byte) []byte {
	if len(b) > 64 {
		return b[:64]
	}
	return b
}

func checkRoundTrip(c Case) error {
	stream, err := writeAll(c.Msgs)
	if err != nil {
		return err
	}
	r := hio.NewFragReader(stream, c.Plan.Chunks, c.Plan.EOFWith)
	consumed := 0
	maxLen := 0
	// a receive loop may read every message into one variable (Reuse), or keep
	// the messages it read (then what it kept must stay what it was: kept)
	var shared qnet.Message
	var kept []qnet.Message
	for i, m := range c.Msgs {
		var fresh qnet.Message
		got := &fresh
		if c.Reuse {
			got = &shared
		}
		if err := got.Read(r); err != nil {
			return vt.Violationf("C01:read-error", "message %d/%d: Read failed: %v", i, len(c.Msgs), err)
		}
		if !c.Reuse {
			kept = append(kept, fresh)
		}
		p := m.payload()
		if len(p) > maxLen {
			maxLen = len(p)
		}
		consumed += 28 + len(p)
		h := got.Header
		if h.Magic != 0x42dead42 || h.ID != m.ID || h.Size != uint32(len(p)) || h.Version != 0 || h.Type != m.Type ||
			h.Flags != m.Flags || h.Service != m.Service || h.Object != m.Object || h.Action != m.Action {
			return vt.Violationf("C01:header-mismatch", "message %d: header read back %+v, written %+v", i, h, m)
		}
		if !bytes.Equal(got.Payload, p) {
			how := ""
			if c.Reuse {
				how = " (read into the variable which held the previous message)"
			}
			return vt.Violationf("C01:payload-mismatch", "message %d: payload differs (len %d vs %d)%s", i, len(got.Payload), len(p), how)
		}
		if r.Pos != consumed {
			return vt.Violationf("C01:consumed", "after message %d the reader was asked for %d bytes, expected exactly %d", i, r.Pos, consumed)
		}
	}
	var extra qnet.Message
	if c.Reuse {
		extra = shared
	}
	if err := extra.Read(r); err != io.EOF {
		return vt.Violationf("C01:eof", "read after the last message returned %v, want io.EOF itself", err)
	}
	for i, k := range kept {
		if !bytes.Equal(k.Payload, c.Msgs[i].payload()) || k.Header.ID != c.Msgs[i].ID {
			return vt.Violationf("C01:kept-message-changed", "message %d of %d, kept by the reader, changed while the later ones were read", i, len(c.Msgs))
		}
	}
	nontrivial := (len(c.Msgs) >= 2 || maxLen > 0) && r.Splits > 0
	labels := []string{"kind=roundtrip", fmt.Sprintf("msgs=%d", len(c.Msgs)), lenClass(maxLen)}
	if r.Splits > 0 {
		labels = append(labels, "split-read")
	}
	if c.Plan.EOFWith {
		labels = append(labels, "eof-with-data")
	}
	if c.Reuse && len(c.Msgs) > 1 {
		labels = append(labels, "same-variable")
	}
	vt.Case(nontrivial, key(c), labels...)
	if nontrivial {
		vt.Sample("roundtrip", c)
	}
	return nil
}

func checkInvalid(c Case) error {
	stream, err := writeAll(c.Msgs)
	if err != nil {
		return err
	}
	inv := c.Invalid
	hdr := refHeader(inv.Magic, 7, inv.Size, inv.Version, inv.Type, 0, 1, 2, 3)
	stream = append(stream, hdr...)
	stream = append(stream, prf(99, inv.Trail)...)
	r := hio.NewFragReader(stream, c.Plan.Chunks, c.Plan.EOFWith)
	var got qnet.Message
	for i := range c.Msgs {
		if !c.Reuse {
			got = qnet.Message{}
		}
		if err := got.Read(r); err != nil {
			return vt.Violationf("C01:read-error", "valid message %d before the invalid header: %v", i, err)
		}
	}
	before := r.Pos
	if !c.Reuse {
		got = qnet.Message{}
	}
	err = got.Read(r)
	if err == nil {
		return vt.Violationf("C01:invalid-accepted:"+inv.Field, "header with bad %s (%+v) was accepted", inv.Field, *inv)
	}
	if r.Pos-before > 28 {
		return vt.Violationf("C01:payload-read-before-refusal", "bad %s: %d bytes consumed before refusing, more than the 28 byte header", inv.Field, r.Pos-before)
	}
	vt.Case(true, key(c), "kind=invalid", "invalid="+inv.Field)
	vt.Sample("invalid", c)
	return nil
}

func checkShortWrite(c Case) error {
	m := c.Msgs[0]
	msg := mkMessage(m)
	w := &hio.RecWriter{Limit: c.Limit}
	if err := msg.Write(w); err != nil {
		return vt.Violationf("C01:shortwrite-error", "Write over a writer accepting %d bytes per call failed: %v", c.Limit, err)
	}
	if !bytes.Equal(w.Bytes(), m.wire()) {
		return vt.Violationf("C01:shortwrite-bytes", "bytes accepted by a short writer (limit %d) differ from the message", c.Limit)
	}
	vt.Case(len(w.Calls) > 1, key(c), "kind=shortwrite")
	return nil
}

func checkSizeMismatch(c Case) error {
	m := c.Msgs[0]
	msg := mkMessage(m)
	sz := int64(len(msg.Payload)) + int64(c.SizeOff)
	if sz < 0 {
		sz = int64(len(msg.Payload)) + 1
	}
	msg.Header.Size = uint32(sz)
	w := &hio.RecWriter{}
	if err := msg.Write(w); err == nil {
		return vt.Violationf("C01:sizemismatch-accepted", "Write accepted Header.Size=%d with a %d byte payload", msg.Header.Size, len(msg.Payload))
	}
	if len(w.Bytes()) != 0 {
		return vt.Violationf("C01:sizemismatch-wrote", "Write refused the message but had written %d bytes", len(w.Bytes()))
	}
	vt.Case(true, key(c), "kind=sizemismatch")
	return nil
}

// failWriter fails every Write in the configured way.
type failWriter struct {
	mode string
	part int
}

func (w *failWriter) Write(p []byte) (int, error) {
	n := 0
	if w.mode == "partial-eof" || w.mode == "partial-error" {
		// never the whole buffer: writing everything together with io.EOF is
		// documented as a success of WriteN
		n = w.part
		if n > len(p)-1 {
			n = len(p) - 1
		}
		if n < 0 {
			n = 0
		}
	}
	if w.mode == "eof" || w.mode == "partial-eof" {
		return n, io.EOF
	}
	return n, hio.ErrInjected
}

// checkAfterFailure: the first message is written to a failing stream (the
// write must report an error), then the remaining ones are written normally:
// their wire bytes must be exactly theirs.
func checkAfterFailure(c Case) error {
	first := mkMessage(c.Msgs[0])
	for i := 0; i < c.Repeat; i++ {
		if err := first.Write(&failWriter{mode: c.Fail, part: c.Limit}); err == nil {
			return vt.Violationf("C01:failed-write-accepted", "Write to a stream failing with %s reported success", c.Fail)
		}
	}
	rest := c.Msgs[1:]
	stream, err := writeAll(rest)
	if err != nil {
		return err
	}
	r := hio.NewFragReader(stream, c.Plan.Chunks, c.Plan.EOFWith)
	for i, m := range rest {
		var got qnet.Message
		if err := got.Read(r); err != nil {
			return vt.Violationf("C01:read-error", "message %d written after a failed write: Read failed: %v", i, err)
		}
		if got.Header.ID != m.ID || !bytes.Equal(got.Payload, m.payload()) {
			return vt.Violationf("C01:payload-mismatch", "message %d written after a failed write reads back differently", i)
		}
	}
	vt.Case(true, key(c), "kind=afterfailure", "fail="+c.Fail)
	return nil
}

func TestFraming(t *testing.T) { vt.Run(t, prop, "TestFraming", genCase, checkCase) }

func TestReplay(t *testing.T) {
	vt.Replay(t, map[string]func(json.RawMessage) error{"TestFraming": vt.Decode(checkCase)})
}
