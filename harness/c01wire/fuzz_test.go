package c01wire

import (
	"bytes"
	"testing"

	qnet "github.com/lugu/qiloop/bus/net"
	"verif/harness/hio"
)

// FuzzRead is the coverage-guided counterpart of TestFraming (thorough tier):
// whatever the bytes and the fragmentation, a message that is accepted was
// consumed exactly (28 + size bytes), has valid header fields and re-encodes to
// the consumed prefix; a refused header consumed at most 28 bytes... unless the
// payload was short.
func FuzzRead(f *testing.F) {
	for i, m := range []Msg{{Type: 1, ID: 7, Len: 0}, {Type: 2, ID: 9, Service: 1, Object: 1, Action: 100, Len: 5, Seed: 3}, {Type: 8, Flags: 255, ID: 0xffffffff, Len: 29, Seed: 4}} {
		f.Add(m.wire(), uint8(i*7))
		f.Add(append(m.wire(), m.wire()...), uint8(1))
	}
	f.Add([]byte{0x42, 0xad, 0xde, 0x42, 0, 0, 0, 0, 0xff, 0xff, 0xff, 0xff, 0, 0, 1, 0}, uint8(2))
	f.Fuzz(func(t *testing.T, data []byte, frag uint8) {
		if len(data) > 1<<16 {
			return
		}
		chunks := []int{1 + int(frag%31), 1 + int(frag/8)}
		r := hio.NewFragReader(data, chunks, frag&1 == 1)
		consumed := 0
		for i := 0; i < 8; i++ {
			var m qnet.Message
			err := m.Read(r)
			if err != nil {
				return
			}
			if r.Pos != consumed+28+len(m.Payload) || uint32(len(m.Payload)) != m.Header.Size {
				t.Fatalf("message %d: consumed %d bytes for a %d byte payload", i, r.Pos-consumed, len(m.Payload))
			}
			h := m.Header
			if h.Magic != 0x42dead42 || h.Version != 0 || h.Type < 1 || h.Type > 8 || h.Size > qnet.MaxPayloadSize {
				t.Fatalf("message %d: invalid header accepted: %+v", i, h)
			}
			w := &hio.RecWriter{}
			if err := m.Write(w); err != nil {
				t.Fatalf("message %d: accepted message cannot be written back: %v", i, err)
			}
			if !bytes.Equal(w.Bytes(), data[consumed:r.Pos]) {
				t.Fatalf("message %d: re-encoding differs from the consumed bytes", i)
			}
			consumed = r.Pos
		}
	})
}
