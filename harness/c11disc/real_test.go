package c11disc

// The same oracle over real connections (net.Pipe, unix socket, tcp loopback:
// the streams of bus/net/stream.go instead of the harness's scripted one). The
// peer is a goroutine of the harness which reads the client's frames, answers
// some calls, and then loses the connection in a generated way: it closes, it
// closes in the middle of a frame it is sending, it stops reading and closes
// while the client is still writing a large call, or the client's side closes.
// Fault positions are not enumerated here (TestFaults does that); what is
// sampled is the kind of loss and its moment.

import (
	"bytes"
	"encoding/binary"
	"encoding/json"
	"fmt"
	"io"
	gonet "net"
	"os"
	"path/filepath"
	"sync"
	"sync/atomic"
	"testing"
	"time"

	"github.com/lugu/qiloop/bus"
	qnet "github.com/lugu/qiloop/bus/net"
	"pgregory.net/rapid"
	"verif/harness/vt"
)

type RealCase struct {
	Transport string     `json:"transport"` // netpipe | unix | tcp
	Calls     []CallSpec `json:"calls"`
	Subs      int        `json:"subs"`
	Callbacks int        `json:"callbacks"`
	BigCall   int        `json:"big_call"` // > 0: one more call with an argument of that many bytes which the peer never reads completely
	Loss      string     `json:"loss"`     // peer-close | peer-half-frame | peer-stops-reading | local-close
	AfterUS   int        `json:"after_us"` // the loss happens this long after the last answer was written
}

func genReal(t *rapid.T) RealCase {
	c := RealCase{
		Transport: rapid.SampledFrom([]string{"netpipe", "unix", "tcp"}).Draw(t, "transport"),
		Subs:      rapid.IntRange(0, 2).Draw(t, "subs"),
		Callbacks: rapid.IntRange(0, 2).Draw(t, "callbacks"),
		Loss:      rapid.SampledFrom([]string{"peer-close", "peer-half-frame", "peer-stops-reading", "local-close", "local-close-stuck-writer"}).Draw(t, "loss"),
		AfterUS:   rapid.SampledFrom([]int{0, 0, 100, 1000}).Draw(t, "after"),
	}
	n := rapid.IntRange(1, 4).Draw(t, "calls")
	for i := 0; i < n; i++ {
		c.Calls = append(c.Calls, CallSpec{Answered: rapid.Bool().Draw(t, "answered"), ReplySize: rapid.SampledFrom([]int{0, 4, 40, 5000}).Draw(t, "size")})
	}
	if c.Loss == "peer-stops-reading" || c.Loss == "local-close-stuck-writer" {
		c.BigCall = rapid.SampledFrom([]int{200000, 1 << 20, 4 << 20}).Draw(t, "big")
	}
	return c
}

func connPair(transport string) (a, b gonet.Conn, cleanup func(), err error) {
	cleanup = func() {}
	if transport == "netpipe" {
		a, b = gonet.Pipe()
		return
	}
	var l gonet.Listener
	if transport == "unix" {
		dir, _ := os.MkdirTemp("", "c11")
		cleanup = func() { os.RemoveAll(dir) }
		l, err = gonet.Listen("unix", filepath.Join(dir, "s"))
	} else {
		l, err = gonet.Listen("tcp", "127.0.0.1:0")
	}
	if err != nil {
		return
	}
	defer l.Close()
	acc := make(chan gonet.Conn, 1)
	go func() {
		c, e := l.Accept()
		if e != nil {
			close(acc)
			return
		}
		acc <- c
	}()
	a, err = gonet.Dial(l.Addr().Network(), l.Addr().String())
	if err != nil {
		return
	}
	var ok bool
	if b, ok = <-acc; !ok {
		err = fmt.Errorf("accept failed")
	}
	return
}

func checkReal(c RealCase) error {
	vt.Journal(prop, "TestRealTransport", "C11:real:process-died", c)
	defer vt.JournalDone(prop, "TestRealTransport")
	local, peer, cleanup, err := connPair(c.Transport)
	defer cleanup()
	if err != nil {
		vt.Note("transport %s unavailable: %v", c.Transport, err)
		vt.Case(false, "unavailable", "transport-unavailable="+c.Transport)
		return nil
	}
	defer peer.Close()
	ep := qnet.ConnEndPoint(local)
	defer ep.Close()
	client := bus.NewClient(bus.NewContext(ep))

	// the peer: reads frames; answers the calls which are to be answered; after
	// the last of them it loses the connection
	var wmu sync.Mutex
	answered := make(chan struct{})
	toAnswer := 0
	for _, cs := range c.Calls {
		if cs.Answered {
			toAnswer++
		}
	}
	stopReading := make(chan struct{})
	go func() {
		n := 0
		if toAnswer == 0 {
			close(answered)
		}
		for {
			select {
			case <-stopReading:
				return
			default:
			}
			h := make([]byte, 28)
			if _, err := io.ReadFull(peer, h); err != nil {
				return
			}
			size := binary.LittleEndian.Uint32(h[8:])
			action := binary.LittleEndian.Uint32(h[24:])
			if action == 999 && c.BigCall > 0 {
				return // the large call: its payload is never read
			}
			if _, err := io.CopyN(io.Discard, peer, int64(size)); err != nil {
				return
			}
			i := int(action) - 100
			if h[14] != qnet.Call || i < 0 || i >= len(c.Calls) || !c.Calls[i].Answered {
				continue
			}
			id := binary.LittleEndian.Uint32(h[4:])
			wmu.Lock()
			peer.Write(mkFrame(qnet.Reply, id, 1, 1, action, replyPayload(i, c.Calls[i].ReplySize)))
			wmu.Unlock()
			if n++; n == toAnswer {
				close(answered)
			}
		}
	}()

	cbCounts := make([]int32, c.Callbacks)
	for i := range cbCounts {
		i := i
		client.OnDisconnect(func(err error) { atomic.AddInt32(&cbCounts[i], 1) })
	}
	subClosed := make([]chan struct{}, c.Subs)
	for i := range subClosed {
		subClosed[i] = make(chan struct{})
		_, events, err := client.Subscribe(1, 1, uint32(200+i))
		if err != nil {
			return vt.Violationf("C11:subscribe-error", "Subscribe failed: %v", err)
		}
		go func(ch chan struct{}) {
			for range events {
			}
			close(ch)
		}(subClosed[i])
	}
	outcomes := make([]callOutcome, len(c.Calls)+1)
	done := make([]chan struct{}, len(c.Calls)+1)
	for i := range c.Calls {
		i := i
		done[i] = make(chan struct{})
		go func() {
			p, err := client.Call(nil, 1, 1, uint32(100+i), []byte{byte(i)})
			outcomes[i] = callOutcome{returned: true, payload: p, err: err}
			close(done[i])
		}()
	}
	select {
	case <-answered:
	case <-time.After(bound):
		return vt.Violationf("C11:real:setup", "the peer did not see the calls it was to answer within %v", bound)
	}
	// the answered calls return their replies while the connection is healthy
	for i, spec := range c.Calls {
		if !spec.Answered {
			continue
		}
		select {
		case <-done[i]:
		case <-time.After(bound):
			return vt.Violationf("C11:real:answered-call-hangs", "%s: call %d was answered but did not return within %v", c.Transport, i, bound)
		}
		if o := outcomes[i]; o.err != nil || !bytes.Equal(o.payload, replyPayload(i, spec.ReplySize)) {
			return vt.Violationf("C11:real:reply-lost", "%s, healthy connection: call %d returned (%d bytes, %v) instead of its reply", c.Transport, i, len(o.payload), o.err)
		}
	}
	big := len(c.Calls)
	done[big] = make(chan struct{})
	if c.BigCall > 0 {
		go func() {
			p, err := client.Call(nil, 1, 1, 999, make([]byte, c.BigCall))
			outcomes[big] = callOutcome{returned: true, payload: p, err: err}
			close(done[big])
		}()
		time.Sleep(2 * time.Millisecond) // the write of the large call is under way
	} else {
		close(done[big])
	}
	time.Sleep(time.Duration(c.AfterUS) * time.Microsecond)
	switch c.Loss {
	case "peer-close", "peer-stops-reading":
		peer.Close()
	case "peer-half-frame":
		f := mkFrame(qnet.Reply, 4242, 1, 1, 100, make([]byte, 64))
		wmu.Lock()
		peer.Write(f[:10+c.AfterUS%60])
		wmu.Unlock()
		peer.Close()
	case "local-close", "local-close-stuck-writer":
		go ep.Close()
	}
	what := c.Loss + " on " + c.Transport
	for i := range done {
		select {
		case <-done[i]:
		case <-time.After(bound):
			which := fmt.Sprintf("pending call %d", i)
			if i == big {
				which = fmt.Sprintf("the call with a %d byte argument which the peer never read", c.BigCall)
			}
			return vt.Violationf("C11:real:call-hangs", "%s: %s did not return within %v", what, which, bound)
		}
		if i == big {
			if c.BigCall > 0 && outcomes[i].err == nil {
				return vt.Violationf("C11:real:wrong-result", "%s: the call which the peer never read returned success", what)
			}
			continue
		}
		o, spec := outcomes[i], c.Calls[i]
		if o.err == nil && (!spec.Answered || !bytes.Equal(o.payload, replyPayload(i, spec.ReplySize))) {
			return vt.Violationf("C11:real:wrong-result", "%s: call %d (answered=%v) returned success with a payload of %d bytes which is not its reply", what, i, spec.Answered, len(o.payload))
		}
	}
	late := make(chan error, 1)
	go func() { _, err := client.Call(nil, 1, 1, 998, []byte{9}); late <- err }()
	select {
	case err := <-late:
		if err == nil {
			return vt.Violationf("C11:real:late-call-succeeds", "%s: a call issued after the connection was lost returned success", what)
		}
	case <-time.After(bound):
		return vt.Violationf("C11:real:late-call-hangs", "%s: a call issued after the connection was lost did not return within %v", what, bound)
	}
	for i, ch := range subClosed {
		select {
		case <-ch:
		case <-time.After(bound):
			return vt.Violationf("C11:real:subscription-open", "%s: subscription %d channel not closed within %v", what, i, bound)
		}
	}
	for i := range cbCounts {
		deadline := time.Now().Add(bound)
		for atomic.LoadInt32(&cbCounts[i]) == 0 && time.Now().Before(deadline) {
			time.Sleep(100 * time.Microsecond)
		}
	}
	time.Sleep(300 * time.Microsecond)
	for i := range cbCounts {
		if n := atomic.LoadInt32(&cbCounts[i]); n != 1 {
			return vt.Violationf("C11:real:callback-count", "%s: disconnect callback %d invoked %d times", what, i, n)
		}
	}
	close(stopReading)
	key, _ := json.Marshal(c)
	vt.Case(true, "real"+string(key), "mode=real-transport", "transport="+c.Transport, "loss="+c.Loss)
	return nil
}

func TestRealTransport(t *testing.T) { vt.Run(t, prop, "TestRealTransport", genReal, checkReal) }
