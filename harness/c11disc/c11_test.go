// Package c11disc decides C11: losing the connection fails calls promptly
// instead of hanging them. For each generated scenario every I/O position x
// fault kind is enumerated on a harness-owned stream.
package c11disc

import (
	"bytes"
	"encoding/binary"
	"encoding/json"
	"fmt"
	"io"
	"log"
	"sync"
	"sync/atomic"
	"testing"
	"time"

	"github.com/lugu/qiloop/bus"
	qnet "github.com/lugu/qiloop/bus/net"
	"pgregory.net/rapid"
	"verif/harness/hio"
	"verif/harness/vt"
)

const prop = "C11"

func TestMain(m *testing.M) {
	log.SetOutput(io.Discard)
	vt.Main(m)
}

// CallSpec is one pending call of the scenario.
type CallSpec struct {
	Answered  bool `json:"answered"`   // the scripted peer replies
	ReplySize int  `json:"reply_size"` // payload size of the reply
	Early     bool `json:"early"`      // the reply is delivered (and consumed) before Send returns
	Error     bool `json:"error"`      // the peer answers with an error frame
}

// Scenario is a call/subscribe/disconnect-callback scenario.
type Scenario struct {
	Calls     []CallSpec `json:"calls"`
	Subs      int        `json:"subs"`
	Callbacks int        `json:"callbacks"`
	Events    int        `json:"events"`   // event frames the peer sends to the first subscription
	MaxRead   int        `json:"max_read"` // largest chunk a Read returns (0: unlimited)
	LocalEnd  bool       `json:"local_end"`
	// CloseErr: closing the stream reports an error (a transport that cannot say goodbye)
	CloseErr bool `json:"close_err,omitempty"`
	// LazyClose: closing the stream does not wake the endpoint's pending Read
	// (pipe:// and user supplied streams behave so)
	LazyClose bool `json:"lazy_close,omitempty"`
	// TimeoutErr: the error of the failed connection is a time-out (a net.Error
	// whose Timeout() is true), reported by every read and write from then on
	TimeoutErr bool `json:"timeout_err,omitempty"`
	// IdleSub: the first subscriber does not read until the connection is
	// lost, so the events sent to it (up to 150: more than its queue holds)
	// wait in its pipeline meanwhile
	IdleSub bool `json:"idle_sub,omitempty"`
	// PeerCalls: after the events the peer sends this many frames of type Call
	// addressed like the first subscription's signal. A subscriber with room
	// receives them like events; for one without room the endpoint answers by
	// itself (one more write, which can fail like any other)
	PeerCalls int `json:"peer_calls,omitempty"`
	// BlockingCallback: the first disconnect callback does not return until the
	// program has collected the outcome of its pending calls and subscriptions
	// (it reports on a channel which is read afterwards)
	BlockingCallback bool `json:"blocking_callback,omitempty"`
	// EndedSub: the peer ends the first subscription by itself (an error frame
	// for its signal, as when the object behind it is terminated) while the
	// connection stays up; then one more disconnect callback is registered, and
	// then the program calls the cancel function of the subscription which is
	// already over. The connection is still healthy: no callback has fired
	EndedSub bool `json:"ended_sub,omitempty"`
}

// Case is a scenario; Only restricts the run to one fault (replay files).
type Case struct {
	Scenario   Scenario   `json:"scenario"`
	Only       *hio.Fault `json:"only,omitempty"`
	LocalClose int        `json:"local_close,omitempty"` // Only == nil && LocalClose > 0: close locally at op LocalClose-1
}

func genCase(t *rapid.T) Case {
	var sc Scenario
	n := rapid.IntRange(1, 4).Draw(t, "calls")
	if rapid.IntRange(0, 9).Draw(t, "nocalls") == 0 {
		n = 0
	}
	// now and then more calls in flight than a handler table of the usual size
	// holds (with the subscriptions and callbacks: eleven to twenty handlers)
	many := rapid.IntRange(0, 7).Draw(t, "manycalls") == 0
	if many {
		n = rapid.IntRange(9, 16).Draw(t, "manyn")
	}
	for i := 0; i < n; i++ {
		sc.Calls = append(sc.Calls, CallSpec{
			Answered:  rapid.IntRange(0, 3).Draw(t, "answered") > 0,
			ReplySize: rapid.SampledFrom([]int{0, 1, 4, 17, 40}).Draw(t, "size"),
			Early:     rapid.Bool().Draw(t, "early"),
			Error:     rapid.IntRange(0, 5).Draw(t, "err") == 0,
		})
	}
	sc.Subs = rapid.IntRange(0, 2).Draw(t, "subs")
	sc.Callbacks = rapid.IntRange(0, 2).Draw(t, "callbacks")
	if many {
		sc.Callbacks = rapid.IntRange(1, 3).Draw(t, "manycallbacks")
	}
	if sc.Subs > 0 {
		sc.Events = rapid.IntRange(0, 3).Draw(t, "events")
		if rapid.IntRange(0, 4).Draw(t, "idle") == 0 {
			sc.IdleSub = true
			sc.Events = rapid.SampledFrom([]int{3, 50, 101, 102, 150}).Draw(t, "backlog")
		}
	}
	if sc.Subs > 0 && rapid.IntRange(0, 2).Draw(t, "peercalls") == 0 {
		sc.PeerCalls = rapid.IntRange(1, 3).Draw(t, "npeercalls")
	}
	if sc.Callbacks > 0 && rapid.IntRange(0, 2).Draw(t, "blockingcb") == 0 {
		sc.BlockingCallback = true
	}
	if sc.Subs > 0 && !sc.IdleSub && rapid.IntRange(0, 3).Draw(t, "endedsub") == 0 {
		sc.EndedSub = true
	}
	sc.CloseErr = rapid.IntRange(0, 4).Draw(t, "closeerr") == 0
	sc.LazyClose = rapid.IntRange(0, 3).Draw(t, "lazyclose") == 0
	sc.TimeoutErr = rapid.IntRange(0, 2).Draw(t, "timeouterr") == 0
	sc.MaxRead = rapid.SampledFrom([]int{0, 5, 13, 28}).Draw(t, "maxread")
	sc.LocalEnd = rapid.Bool().Draw(t, "localend")
	return Case{Scenario: sc}
}

const bound = 5 * time.Second

func replyPayload(i, n int) []byte {
	b := make([]byte, n)
	for j := range b {
		b[j] = byte(i*31 + j*7 + 1)
	}
	return b
}

func mkFrame(typ uint8, id, service, object, action uint32, payload []byte) []byte {
	m := qnet.NewMessage(qnet.NewHeader(typ, service, object, action, id), payload)
	w := &hio.RecWriter{}
	m.Write(w)
	return w.Bytes()
}

func errorPayload(msg string) []byte {
	b := []byte{1, 0, 0, 0, 's'}
	b = binary.LittleEndian.AppendUint32(b, uint32(len(msg)))
	return append(b, msg...)
}

type runResult struct {
	fired     bool
	firedOp   int
	ops       int
	violation *vt.Violation
	insideMsg bool
}

type callOutcome struct {
	returned bool
	payload  []byte
	err      error
}

// run executes the scenario once. fault == nil and localCloseAt < 0 is the
// fault-free run, which ends with a disconnection after quiescence.
func run(sc Scenario, fault *hio.Fault, localCloseAt int) runResult {
	s := hio.NewScriptStream(fault)
	s.MaxRead = sc.MaxRead
	s.CloseErr = sc.CloseErr
	s.LazyClose = sc.LazyClose
	s.FailTimeout = sc.TimeoutErr
	defer s.Release()
	resume := make(chan struct{})
	var resumeOnce sync.Once
	wake := func() { resumeOnce.Do(func() { close(resume) }) }
	defer wake()
	var ep qnet.EndPoint
	var localClosed int32
	var closeOnce sync.Once
	if localCloseAt >= 0 {
		s.OnOp = func(k int) {
			if k == localCloseAt {
				closeOnce.Do(func() {
					atomic.StoreInt32(&localClosed, 1)
					go ep.Close()
				})
			}
		}
	}
	// the scripted peer: answers calls when their frame is written
	s.OnWrite = func(st *hio.ScriptStream, p []byte) {
		if len(p) < 28 || p[14] != qnet.Call {
			return
		}
		id := binary.LittleEndian.Uint32(p[4:])
		action := binary.LittleEndian.Uint32(p[24:])
		i := int(action) - 100
		if i < 0 || i >= len(sc.Calls) || !sc.Calls[i].Answered {
			return
		}
		spec := sc.Calls[i]
		var f []byte
		if spec.Error {
			f = mkFrame(qnet.Error, id, 1, 1, action, errorPayload(fmt.Sprintf("e%d", i)))
		} else {
			f = mkFrame(qnet.Reply, id, 1, 1, action, replyPayload(i, spec.ReplySize))
		}
		st.Feed(f)
		if spec.Early {
			st.WaitDrained(2 * time.Second)
		}
	}
	ep = qnet.NewEndPoint(s)
	client := bus.NewClient(bus.NewContext(ep))
	defer ep.Close()

	cbCounts := make([]int32, sc.Callbacks, sc.Callbacks+1)
	collected := make(chan struct{})
	var collectedOnce sync.Once
	collect := func() { collectedOnce.Do(func() { close(collected) }) }
	defer collect()
	for i := range cbCounts {
		i := i
		client.OnDisconnect(func(err error) {
			atomic.AddInt32(&cbCounts[i], 1)
			if i == 0 && sc.BlockingCallback {
				<-collected
			}
		})
	}
	subClosed := make([]chan struct{}, sc.Subs)
	subEvents := make([]int32, sc.Subs)
	var cancelFirst func()
	for i := range subClosed {
		i := i
		subClosed[i] = make(chan struct{})
		cancelSub, events, err := client.Subscribe(1, 1, uint32(200+i))
		if i == 0 {
			cancelFirst = cancelSub
		}
		if err != nil {
			return runResult{violation: vt.Violationf("C11:subscribe-error", "Subscribe failed: %v", err)}
		}
		go func() {
			if i == 0 && sc.IdleSub {
				<-resume
			}
			for range events {
				atomic.AddInt32(&subEvents[i], 1)
			}
			close(subClosed[i])
		}()
	}
	for i := 0; i < sc.Events; i++ {
		s.Feed(mkFrame(qnet.Event, uint32(1000+i), 1, 1, 200, []byte{byte(i), 2, 3, 4, 5}))
	}
	if sc.EndedSub && cancelFirst != nil {
		s.Feed(mkFrame(qnet.Error, 0, 1, 1, 200, errorPayload("object terminated")))
		select {
		case <-subClosed[0]:
		case <-time.After(bound):
			return runResult{violation: vt.Violationf("C11:subscription-open", "the peer ended the subscription with an error frame: its channel was not closed within %v", bound)}
		}
		if fault == nil && localCloseAt < 0 {
			// (only where the connection is known to be healthy at this point: a
			// callback registered after the loss is not owed anything)
			cbCounts = append(cbCounts, 0)
			idx := len(cbCounts) - 1
			client.OnDisconnect(func(err error) { atomic.AddInt32(&cbCounts[idx], 1) })
		}
		cancelFirst()
		time.Sleep(300 * time.Microsecond)
		if fault == nil && localCloseAt < 0 {
			for i := range cbCounts {
				if n := atomic.LoadInt32(&cbCounts[i]); n != 0 {
					return runResult{violation: vt.Violationf("C11:callback-before-loss", "disconnect callback %d has fired (%d times) while the connection is healthy: the cancel function of a subscription which the peer had already ended was called after the callback was registered", i, n)}
				}
			}
		}
	}
	for i := 0; i < sc.PeerCalls; i++ {
		s.Feed(mkFrame(qnet.Call, uint32(5000+i), 1, 1, 200, []byte{byte(i)}))
	}
	outcomes := make([]callOutcome, len(sc.Calls))
	done := make([]chan struct{}, len(sc.Calls))
	for i := range sc.Calls {
		i := i
		done[i] = make(chan struct{})
		go func() {
			p, err := client.Call(nil, 1, 1, uint32(100+i), []byte{byte(i)})
			outcomes[i] = callOutcome{returned: true, payload: p, err: err}
			close(done[i])
		}()
	}
	waitCall := func(i int, d time.Duration) bool {
		select {
		case <-done[i]:
			return true
		case <-time.After(d):
			return false
		}
	}
	res := runResult{}
	faultFree := fault == nil && localCloseAt < 0
	if faultFree {
		// quiescence: answered calls return their own reply
		for i, spec := range sc.Calls {
			if !spec.Answered {
				continue
			}
			if !waitCall(i, bound) {
				res.violation = vt.Violationf("C11:answered-call-hangs", "fault-free run: call %d was answered (early=%v) but did not return within %v", i, spec.Early, bound)
				return res
			}
			o := outcomes[i]
			if spec.Error {
				if o.err == nil {
					res.violation = vt.Violationf("C11:error-reply-lost", "fault-free run: call %d was answered with an error frame but returned success", i)
					return res
				}
			} else if o.err != nil || !bytes.Equal(o.payload, replyPayload(i, spec.ReplySize)) {
				res.violation = vt.Violationf("C11:reply-lost", "fault-free run: call %d (early=%v) returned (%x, %v) instead of its reply", i, spec.Early, o.payload, o.err)
				return res
			}
		}
		s.WaitIdle(bound)
		res.ops = s.Ops()
		// terminal disconnection
		if sc.LocalEnd {
			ep.Close()
		} else {
			s.PeerClose()
		}
	} else {
		// wait for the fault to fire (or the scenario to go quiet without it)
		deadline := time.Now().Add(bound)
		for {
			fired, _, _ := s.FaultInfo()
			if fired || atomic.LoadInt32(&localClosed) == 1 || s.Dead() {
				break
			}
			allAnswered := true
			for i, spec := range sc.Calls {
				if spec.Answered {
					select {
					case <-done[i]:
					default:
						allAnswered = false
					}
				}
			}
			if allAnswered && s.WaitIdle(5*time.Millisecond) {
				break // nothing more will happen: the fault position was not reached
			}
			if time.Now().After(deadline) {
				break
			}
			time.Sleep(200 * time.Microsecond)
		}
		fired, op, _ := s.FaultInfo()
		res.fired = fired || atomic.LoadInt32(&localClosed) == 1
		res.firedOp = op
		if !res.fired {
			return res // not a case
		}
	}
	what := "terminal disconnection"
	if fault != nil {
		what = fault.String()
	} else if localCloseAt >= 0 {
		what = fmt.Sprintf("local Close at op %d", localCloseAt)
	}
	// the connection is lost (or being lost): the idle subscriber reads again
	wake()
	// --- the oracle ---
	for i, spec := range sc.Calls {
		if !waitCall(i, bound) {
			res.violation = vt.Violationf("C11:call-hangs", "%s: pending call %d (answered=%v) did not return within %v", what, i, spec.Answered, bound)
			return res
		}
		o := outcomes[i]
		if o.err == nil {
			if !spec.Answered || spec.Error || !bytes.Equal(o.payload, replyPayload(i, spec.ReplySize)) {
				res.violation = vt.Violationf("C11:wrong-result", "%s: call %d (answered=%v) returned success with payload %x, which is not its reply", what, i, spec.Answered, o.payload)
				return res
			}
		}
	}
	// later calls fail
	late := make(chan error, 1)
	go func() {
		_, err := client.Call(nil, 1, 1, 999, []byte{9})
		late <- err
	}()
	select {
	case err := <-late:
		if err == nil {
			res.violation = vt.Violationf("C11:late-call-succeeds", "%s: a call issued after the connection was lost returned success", what)
			return res
		}
	case <-time.After(bound):
		res.violation = vt.Violationf("C11:late-call-hangs", "%s: a call issued after the connection was lost did not return within %v", what, bound)
		return res
	}
	for i, ch := range subClosed {
		select {
		case <-ch:
		case <-time.After(bound):
			res.violation = vt.Violationf("C11:subscription-open", "%s: subscription %d channel not closed within %v", what, i, bound)
			return res
		}
	}
	// calls and subscriptions have been collected: a callback which waited for that may go on
	collect()
	for i := range cbCounts {
		deadline := time.Now().Add(bound)
		for atomic.LoadInt32(&cbCounts[i]) == 0 && time.Now().Before(deadline) {
			time.Sleep(100 * time.Microsecond)
		}
		if n := atomic.LoadInt32(&cbCounts[i]); n != 1 {
			res.violation = vt.Violationf("C11:callback-count", "%s: disconnect callback %d invoked %d times", what, i, n)
			return res
		}
	}
	// a second invocation may come late (handlers are closed asynchronously)
	time.Sleep(300 * time.Microsecond)
	for i := range cbCounts {
		if n := atomic.LoadInt32(&cbCounts[i]); n != 1 {
			res.violation = vt.Violationf("C11:callback-count", "%s: disconnect callback %d invoked %d times", what, i, n)
			return res
		}
	}
	return res
}

var faultKinds = []string{hio.FaultReadError, hio.FaultReadEOF, hio.FaultReadPartial, hio.FaultWriteError, hio.FaultWritePartial, hio.FaultPeerClose, hio.FaultGarbage, hio.FaultHalfClose}

func checkCase(c Case) error {
	sc := c.Scenario
	if c.Only != nil {
		r := run(sc, c.Only, -1)
		if r.violation != nil {
			return r.violation
		}
		return nil
	}
	if c.LocalClose > 0 {
		r := run(sc, nil, c.LocalClose-1)
		if r.violation != nil {
			return r.violation
		}
		return nil
	}
	// 1. fault-free run: counts the operations, checks early replies
	base := run(sc, nil, -1)
	if base.violation != nil {
		return base.violation
	}
	n := base.ops
	fired, notReached := 0, 0
	// 2. every position x every fault kind
	// (a long scenario, i.e. one with a big backlog of events, has its positions
	// thinned out: the first and last thirty, and every ninth in between)
	for k := 0; k <= n; k++ {
		if n > 90 && k > 30 && k < n-30 && k%9 != 0 {
			continue
		}
		for _, kind := range faultKinds {
			for _, part := range []int{1, 9} {
				if part == 9 && kind != hio.FaultReadPartial && kind != hio.FaultWritePartial {
					continue
				}
				f := &hio.Fault{At: k, Kind: kind, Part: part}
				r := run(sc, f, -1)
				if r.violation != nil {
					// make the saved case replay exactly this fault
					vt.SaveFailure(prop, "TestFaults", Case{Scenario: sc, Only: f}, r.violation)
					return r.violation
				}
				if r.fired {
					fired++
					vt.Label("fault=" + kind)
				} else {
					notReached++
				}
			}
		}
		r := run(sc, nil, k)
		if r.violation != nil {
			vt.SaveFailure(prop, "TestFaults", Case{Scenario: sc, LocalClose: k + 1}, r.violation)
			return r.violation
		}
		if r.fired {
			fired++
			vt.Label("fault=local-close")
		}
	}
	vt.LabelN("fault-runs", int64(fired))
	vt.LabelN("fault-position-not-reached", int64(notReached))
	vt.LabelN("positions", int64(n+1))
	pending := len(sc.Calls) > 0
	nontrivial := pending && n >= 2 && fired > 0
	labels := []string{fmt.Sprintf("calls=%d", len(sc.Calls)), fmt.Sprintf("subs=%d", sc.Subs), fmt.Sprintf("callbacks=%d", sc.Callbacks)}
	for _, cs := range sc.Calls {
		if cs.Early && cs.Answered {
			labels = append(labels, "has-early-reply")
			break
		}
	}
	key, _ := json.Marshal(sc)
	vt.Case(nontrivial, string(key), labels...)
	if nontrivial {
		vt.Sample("scenario", map[string]interface{}{"scenario": sc, "io_operations": n, "fault_runs": fired})
	}
	return nil
}

func TestFaults(t *testing.T) { vt.Run(t, prop, "TestFaults", genCase, checkCase) }

func TestReplay(t *testing.T) {
	vt.Replay(t, map[string]func(json.RawMessage) error{"TestFaults": vt.Decode(checkCase), "TestRealTransport": vt.Decode(checkReal)})
}
