// Package hio holds harness-owned I/O: byte sources and sinks whose behaviour
// (fragmentation, faults, scheduling) is dictated by a generated plan, so that
// what the code under test consumed or wrote can be observed exactly.
package hio

import (
	"bufio"
	"bytes"
	"errors"
	"io"
	"net"
	"strings"
	"time"
)

// FragReader is an io.Reader over a byte string that follows a fragmentation
// plan: every Read returns between 1 and chunk bytes (never (0, nil)),
// optionally the last chunk together with io.EOF. It records how many bytes it
// handed out and how many Read calls were made.
type FragReader struct {
	Data    []byte
	Chunks  []int
	EOFWith bool
	Pos     int // bytes handed out so far
	Reads   int
	Splits  int // reads that returned fewer bytes than asked for
	idx     int
}

// NewFragReader builds a reader.
func NewFragReader(data []byte, chunks []int, eofWith bool) *FragReader {
	if len(chunks) == 0 {
		chunks = []int{1 << 30}
	}
	return &FragReader{Data: data, Chunks: chunks, EOFWith: eofWith}
}

func (f *FragReader) Read(p []byte) (int, error) {
	f.Reads++
	if len(p) == 0 {
		return 0, nil
	}
	remaining := len(f.Data) - f.Pos
	if remaining == 0 {
		return 0, io.EOF
	}
	n := f.Chunks[f.idx%len(f.Chunks)]
	f.idx++
	if n < 1 {
		n = 1
	}
	if n > len(p) {
		n = len(p)
	}
	if n > remaining {
		n = remaining
	}
	if n < len(p) {
		f.Splits++
	}
	copy(p, f.Data[f.Pos:f.Pos+n])
	f.Pos += n
	if f.Pos == len(f.Data) && f.EOFWith {
		return n, io.EOF
	}
	return n, nil
}

// RecWriter records every Write call; Limit > 0 makes it accept at most Limit
// bytes per call (returning (k, nil), which io.Writer forbids but
// basic.WriteN documents it copes with). FailAt >= 0 fails the call with that
// index.
type RecWriter struct {
	Calls  [][]byte
	Limit  int
	FailAt int
}

// ErrInjected is the error injected by harness writers/readers.
var ErrInjected = errors.New("injected fault")

func (w *RecWriter) Write(p []byte) (int, error) {
	idx := len(w.Calls)
	if w.FailAt > 0 && idx+1 == w.FailAt {
		w.Calls = append(w.Calls, nil)
		return 0, ErrInjected
	}
	n := len(p)
	if w.Limit > 0 && n > w.Limit {
		n = w.Limit
	}
	w.Calls = append(w.Calls, append([]byte{}, p[:n]...))
	return n, nil
}

// Bytes is the concatenation of everything accepted.
func (w *RecWriter) Bytes() []byte {
	var out []byte
	for _, c := range w.Calls {
		out = append(out, c...)
	}
	return out
}

// SourceKinds are the concrete reader types a decoder may be handed. The
// harness's own fragmenting reader comes first; the others are what callers
// really pass (the library itself wraps payloads in bytes.Buffer and
// bytes.Reader), and code which looks at the concrete type of its reader must
// not behave differently for any of them.
var SourceKinds = []string{"frag", "frag", "frag", "buffer", "buffer", "reader", "strings", "bufio", "conn"}

// fragConn is a net.Conn whose reading side is a FragReader: what an endpoint
// hands to the message decoder is a connection, and code which finds deadline
// methods on its reader may use them (they succeed and change nothing here;
// the stream ends where the data ends, as when the peer closes).
type fragConn struct {
	*FragReader
	Deadlines int
}

type fragAddr struct{}

func (fragAddr) Network() string { return "frag" }
func (fragAddr) String() string  { return "frag" }

func (c *fragConn) Write(p []byte) (int, error)        { return len(p), nil }
func (c *fragConn) Close() error                       { return nil }
func (c *fragConn) LocalAddr() net.Addr                { return fragAddr{} }
func (c *fragConn) RemoteAddr() net.Addr               { return fragAddr{} }
func (c *fragConn) SetDeadline(t time.Time) error      { c.Deadlines++; return nil }
func (c *fragConn) SetReadDeadline(t time.Time) error  { c.Deadlines++; return nil }
func (c *fragConn) SetWriteDeadline(t time.Time) error { c.Deadlines++; return nil }

var _ net.Conn = (*fragConn)(nil)

// Source builds a byte source of the given kind over data and a function
// reporting how many bytes of data have been taken from it so far (for the
// "bufio" kind: taken by the consumer, not by the buffer's read-ahead).
func Source(kind string, data []byte, chunks []int, eofWith bool) (io.Reader, func() int) {
	switch kind {
	case "buffer":
		b := bytes.NewBuffer(append([]byte{}, data...))
		return b, func() int { return len(data) - b.Len() }
	case "reader":
		r := bytes.NewReader(data)
		return r, func() int { return len(data) - r.Len() }
	case "strings":
		r := strings.NewReader(string(data))
		return r, func() int { return len(data) - r.Len() }
	case "conn":
		f := NewFragReader(data, chunks, eofWith)
		return &fragConn{FragReader: f}, func() int { return f.Pos }
	case "bufio":
		f := NewFragReader(data, chunks, eofWith)
		b := bufio.NewReaderSize(f, 16)
		return b, func() int { return f.Pos - b.Buffered() }
	}
	f := NewFragReader(data, chunks, eofWith)
	return f, func() int { return f.Pos }
}
