// Package hio holds harness-owned I/O: byte sources and sinks whose behaviour
// (fragmentation, faults, scheduling) is dictated by a generated plan, so that
// what the code under test consumed or wrote can be observed exactly.
package hio

import (
	"errors"
	"io"
)

// FragReader is an io.Reader over a byte string that follows a fragmentation
// plan: every Read returns between 1 and chunk bytes (never (0, nil)),
// optionally the last chunk together with io.EOF. It records how many bytes it
// handed out and how many Read calls were made.
type FragReader struct {
	Data    []byte
	Chunks  []int
	EOFWith bool
	Pos     int // bytes handed out so far
	Reads   int
	Splits  int // reads that returned fewer bytes than asked for
	idx     int
}

// NewFragReader builds a reader.
func NewFragReader(data []byte, chunks []int, eofWith bool) *FragReader {
	if len(chunks) == 0 {
		chunks = []int{1 << 30}
	}
	return &FragReader{Data: data, Chunks: chunks, EOFWith: eofWith}
}

func (f *FragReader) Read(p []byte) (int, error) {
	f.Reads++
	if len(p) == 0 {
		return 0, nil
	}
	remaining := len(f.Data) - f.Pos
	if remaining == 0 {
		return 0, io.EOF
	}
	n := f.Chunks[f.idx%len(f.Chunks)]
	f.idx++
	if n < 1 {
		n = 1
	}
	if n > len(p) {
		n = len(p)
	}
	if n > remaining {
		n = remaining
	}
	if n < len(p) {
		f.Splits++
	}
	copy(p, f.Data[f.Pos:f.Pos+n])
	f.Pos += n
	if f.Pos == len(f.Data) && f.EOFWith {
		return n, io.EOF
	}
	return n, nil
}

// RecWriter records every Write call; Limit > 0 makes it accept at most Limit
// bytes per call (returning (k, nil), which io.Writer forbids but
// basic.WriteN documents it copes with). FailAt >= 0 fails the call with that
// index.
type RecWriter struct {
	Calls  [][]byte
	Limit  int
	FailAt int
}

// ErrInjected is the error injected by harness writers/readers.
var ErrInjected = errors.New("injected fault")

func (w *RecWriter) Write(p []byte) (int, error) {
	idx := len(w.Calls)
	if w.FailAt > 0 && idx+1 == w.FailAt {
		w.Calls = append(w.Calls, nil)
		return 0, ErrInjected
	}
	n := len(p)
	if w.Limit > 0 && n > w.Limit {
		n = w.Limit
	}
	w.Calls = append(w.Calls, append([]byte{}, p[:n]...))
	return n, nil
}

// Bytes is the concatenation of everything accepted.
func (w *RecWriter) Bytes() []byte {
	var out []byte
	for _, c := range w.Calls {
		out = append(out, c...)
	}
	return out
}
