package hio

import (
	"sync/atomic"

	qnet "github.com/lugu/qiloop/bus/net"
)

// CountingListener wraps a bus/net.Listener and counts accepted and closed
// streams.
type CountingListener struct {
	qnet.Listener
	Accepted int32
	Closed   int32
}

type countedStream struct {
	qnet.Stream
	l      *CountingListener
	closed int32
}

func (s *countedStream) Close() error {
	if atomic.CompareAndSwapInt32(&s.closed, 0, 1) {
		atomic.AddInt32(&s.l.Closed, 1)
	}
	return s.Stream.Close()
}

// Read notices the peer closing the connection.
func (s *countedStream) Read(p []byte) (int, error) {
	n, err := s.Stream.Read(p)
	if err != nil && atomic.CompareAndSwapInt32(&s.closed, 0, 1) {
		atomic.AddInt32(&s.l.Closed, 1)
	}
	return n, err
}

// Accept counts the stream.
func (l *CountingListener) Accept() (qnet.Stream, error) {
	s, err := l.Listener.Accept()
	if err != nil {
		return nil, err
	}
	atomic.AddInt32(&l.Accepted, 1)
	return &countedStream{Stream: s, l: l}, nil
}

// Live is the number of connections accepted and not yet closed.
func (l *CountingListener) Live() int32 {
	return atomic.LoadInt32(&l.Accepted) - atomic.LoadInt32(&l.Closed)
}
