package hio

import (
	"context"
	"errors"
	"fmt"
	"io"
	"runtime"
	"sync"
	"time"
)

// Fault describes one injected failure of a ScriptStream. Operations are
// numbered at run time: every Read call that is about to return and every
// Write call is one operation.
type Fault struct {
	At   int    `json:"at"`   // operation index at which the fault fires
	Kind string `json:"kind"` // see the Fault* constants
	Part int    `json:"part"` // bytes transferred before the error for the partial kinds
}

// Fault kinds.
const (
	FaultReadError    = "read-error"    // the Read returns an error (connection reset)
	FaultReadEOF      = "read-eof"      // the Read returns io.EOF although data may be pending (peer vanished)
	FaultReadPartial  = "read-partial"  // the Read returns at most Part bytes, the next Read fails
	FaultWriteError   = "write-error"   // the Write transfers nothing and fails
	FaultWritePartial = "write-partial" // the Write transfers Part bytes and fails
	FaultPeerClose    = "peer-close"    // the peer closes: pending data is still delivered, then io.EOF; writes fail
	FaultGarbage      = "garbage"       // the bytes delivered by this Read are corrupted; the stream itself stays healthy
	FaultHalfClose    = "half-close"    // the peer shuts down its sending side: reads hit io.EOF, writes keep succeeding
)

// ErrStreamFailed is returned by a stream after a fault.
var ErrStreamFailed = errors.New("scriptstream: connection failed (injected)")

// timeoutError is what a connection which timed out reports, again and again
// (ETIMEDOUT, a TLS connection after a deadline): a net.Error whose Timeout()
// is true.
type timeoutError struct{}

func (timeoutError) Error() string   { return "scriptstream: i/o timeout (injected)" }
func (timeoutError) Timeout() bool   { return true }
func (timeoutError) Temporary() bool { return true }

// ErrStreamTimeout is the failure of a stream whose FailTimeout is set.
var ErrStreamTimeout error = timeoutError{}

// ErrStreamClosed is returned after the local side closed the stream.
var ErrStreamClosed = errors.New("scriptstream: use of closed connection")

// ScriptStream implements bus/net.Stream on top of two in-memory queues owned
// by the test, which plays the peer. Each Write call is atomic. After a fault
// fired the stream is in a failed state: pending and later Reads and Writes
// fail, as they do on a real socket after a reset.
type ScriptStream struct {
	mu   sync.Mutex
	cond *sync.Cond

	in       []byte // bytes the local side can read
	inClosed bool   // the peer closed its side
	out      [][]byte
	outBytes int

	failed     error
	closed     bool
	closeCount int

	ops        int
	fault      *Fault
	Fired      bool
	FiredOp    int
	FiredKind  string
	armedFail  bool         // read-partial: fail on the next read
	halfClosed bool         // half-close: reads return io.EOF, writes still succeed
	garbleNext bool         // garbage: corrupt the next read that starts at a frame boundary (a Feed boundary)
	fed        int          // total bytes fed so far
	starts     map[int]bool // offsets (in fed bytes) at which a Feed call started
	MaxRead    int          // 0: unlimited; otherwise the largest chunk a Read returns
	CloseErr   bool         // Close reports an error (e.g. the owner had closed the connection already)
	YieldEvery int          // inject runtime.Gosched() every n operations
	WritesFail bool         // every Write fails while Reads go on working (a peer that stopped reading)
	// LazyClose: Close does not wake a Read which is blocked waiting for the
	// peer (the pipe:// transport, or a user's Stream, behaves so): that Read
	// stays blocked until the peer says something or Release is called; Reads
	// and Writes started after the Close fail.
	LazyClose bool
	// FailTimeout: the error of a failed stream says Timeout() == true
	FailTimeout bool
	lazyHold  bool // a Read was blocked when the lazy Close happened and is still held

	// OnWrite is called inside Write, after the bytes were recorded and
	// before Write returns, without the stream lock held.
	OnWrite func(s *ScriptStream, p []byte)
	// OnOp is called (without the lock) when operation index k starts.
	OnOp func(k int)
	// ReadObserved is signalled each time a Read returns data.
	consumed int
	waiters  int // Read calls blocked waiting for data
}

// NewScriptStream builds a stream with an optional fault.
func NewScriptStream(f *Fault) *ScriptStream {
	s := &ScriptStream{fault: f}
	s.cond = sync.NewCond(&s.mu)
	return s
}

func (s *ScriptStream) failure() error {
	if s.FailTimeout {
		return ErrStreamTimeout
	}
	return ErrStreamFailed
}

func (s *ScriptStream) String() string           { return "script://stream" }
func (s *ScriptStream) Context() context.Context { return context.TODO() }

// nextOp assigns an operation index; must be called with the lock held.
func (s *ScriptStream) nextOp() (int, *Fault) {
	k := s.ops
	s.ops++
	if s.fault != nil && !s.Fired && s.fault.At == k {
		return k, s.fault
	}
	return k, nil
}

// Ops returns how many operations were performed.
func (s *ScriptStream) Ops() int {
	s.mu.Lock()
	defer s.mu.Unlock()
	return s.ops
}

func (s *ScriptStream) fire(k int, f *Fault) {
	s.Fired = true
	s.FiredOp = k
	s.FiredKind = f.Kind
}

// Read implements io.Reader.
func (s *ScriptStream) Read(p []byte) (int, error) {
	s.mu.Lock()
	if s.closed {
		s.mu.Unlock()
		return 0, ErrStreamClosed
	}
	for len(s.in) == 0 && !s.inClosed && s.failed == nil && (!s.closed || s.lazyHold) && !s.armedFail && !s.halfClosed {
		s.waiters++
		s.cond.Broadcast()
		s.cond.Wait()
		s.waiters--
	}
	if s.closed && !s.lazyHold {
		s.mu.Unlock()
		return 0, ErrStreamClosed
	}
	if s.failed != nil {
		err := s.failed
		s.mu.Unlock()
		return 0, err
	}
	if s.halfClosed {
		s.mu.Unlock()
		return 0, io.EOF
	}
	if s.armedFail {
		s.failed = s.failure()
		s.cond.Broadcast()
		s.mu.Unlock()
		return 0, s.failure()
	}
	k, f := s.nextOp()
	yield := s.YieldEvery > 0 && k%s.YieldEvery == 0
	onOp := s.OnOp
	if f != nil {
		switch f.Kind {
		case FaultReadError:
			s.fire(k, f)
			s.failed = s.failure()
			s.cond.Broadcast()
			s.mu.Unlock()
			return 0, s.failure()
		case FaultReadEOF:
			s.fire(k, f)
			s.failed = io.EOF
			s.cond.Broadcast()
			s.mu.Unlock()
			return 0, io.EOF
		case FaultPeerClose:
			s.fire(k, f)
			s.inClosed = true
		case FaultHalfClose:
			s.fire(k, f)
			s.halfClosed = true
			s.cond.Broadcast()
			s.mu.Unlock()
			return 0, io.EOF
		case FaultGarbage:
			s.garbleNext = true // fires when a read starts at a frame boundary
		case FaultReadPartial:
			s.fire(k, f)
			s.armedFail = true
			n := f.Part
			if n < 1 {
				n = 1
			}
			if n > len(p) {
				n = len(p)
			}
			if n > len(s.in) {
				n = len(s.in)
			}
			if n == 0 { // nothing to deliver: plain error
				s.failed = s.failure()
				s.cond.Broadcast()
				s.mu.Unlock()
				return 0, s.failure()
			}
			copy(p, s.in[:n])
			s.in = s.in[n:]
			s.consumed += n
			s.cond.Broadcast()
			s.mu.Unlock()
			return n, nil
		}
	}
	if len(s.in) == 0 { // inClosed
		s.mu.Unlock()
		return 0, io.EOF
	}
	n := len(p)
	if n > len(s.in) {
		n = len(s.in)
	}
	if s.MaxRead > 0 && n > s.MaxRead {
		n = s.MaxRead
	}
	copy(p, s.in[:n])
	if s.garbleNext && s.starts[s.consumed] {
		// the peer sends a corrupt frame: the first bytes (the magic) are wrong
		s.garbleNext = false
		s.Fired, s.FiredOp, s.FiredKind = true, k, FaultGarbage
		for i := 0; i < n && i < 4; i++ {
			p[i] ^= 0xA5
		}
	}
	s.in = s.in[n:]
	s.consumed += n
	s.cond.Broadcast()
	s.mu.Unlock()
	if onOp != nil {
		onOp(k)
	}
	if yield {
		runtime.Gosched()
	}
	return n, nil
}

// Write implements io.Writer; each call is atomic.
func (s *ScriptStream) Write(p []byte) (int, error) {
	s.mu.Lock()
	if s.closed {
		s.mu.Unlock()
		return 0, ErrStreamClosed
	}
	if s.armedFail && s.failed == nil {
		s.failed = s.failure()
		s.cond.Broadcast()
	}
	if s.failed != nil || s.inClosed {
		s.mu.Unlock()
		return 0, s.failure()
	}
	if s.WritesFail {
		s.ops++
		s.mu.Unlock()
		return 0, s.failure()
	}
	k, f := s.nextOp()
	yield := s.YieldEvery > 0 && k%s.YieldEvery == 0
	if f != nil {
		switch f.Kind {
		case FaultWriteError, FaultReadError, FaultReadEOF, FaultReadPartial:
			// a read fault scheduled on an operation that turned out to be a
			// write fails the connection at that point all the same
			s.fire(k, f)
			s.failed = s.failure()
			s.cond.Broadcast()
			s.mu.Unlock()
			return 0, s.failure()
		case FaultWritePartial:
			s.fire(k, f)
			n := f.Part
			if n >= len(p) {
				n = len(p) - 1
			}
			if n < 0 {
				n = 0
			}
			s.out = append(s.out, append([]byte{}, p[:n]...))
			s.outBytes += n
			s.failed = s.failure()
			s.cond.Broadcast()
			s.mu.Unlock()
			return n, s.failure()
		case FaultPeerClose:
			s.fire(k, f)
			s.inClosed = true
			s.cond.Broadcast()
			s.mu.Unlock()
			return 0, s.failure()
		case FaultHalfClose:
			s.fire(k, f)
			s.halfClosed = true
			s.cond.Broadcast()
		case FaultGarbage:
			s.garbleNext = true
		}
	}
	s.out = append(s.out, append([]byte{}, p...))
	s.outBytes += len(p)
	hook := s.OnWrite
	onOp := s.OnOp
	s.cond.Broadcast()
	s.mu.Unlock()
	if onOp != nil {
		onOp(k)
	}
	if hook != nil {
		hook(s, p)
	}
	if yield {
		runtime.Gosched()
	}
	return len(p), nil
}

// Close implements io.Closer (the local side closes).
func (s *ScriptStream) Close() error {
	s.mu.Lock()
	if s.LazyClose && s.waiters > 0 && !s.closed {
		s.lazyHold = true
	}
	s.closed = true
	s.closeCount++
	s.cond.Broadcast()
	fail := s.CloseErr
	s.mu.Unlock()
	if fail {
		return errors.New("scriptstream: close failed (injected)")
	}
	return nil
}

// Release ends a Read left blocked by a lazy Close (the test is over).
func (s *ScriptStream) Release() {
	s.mu.Lock()
	s.closed = true
	s.lazyHold = false
	s.cond.Broadcast()
	s.mu.Unlock()
}

// ---- the peer's side -------------------------------------------------------

// Feed makes bytes available to the local reader.
func (s *ScriptStream) Feed(b []byte) {
	s.mu.Lock()
	if s.starts == nil {
		s.starts = map[int]bool{}
	}
	s.starts[s.fed] = true
	s.fed += len(b)
	s.in = append(s.in, b...)
	s.cond.Broadcast()
	s.mu.Unlock()
}

// PeerClose closes the peer side: pending data is delivered, then io.EOF.
func (s *ScriptStream) PeerClose() {
	s.mu.Lock()
	s.inClosed = true
	s.cond.Broadcast()
	s.mu.Unlock()
}

// Fail puts the stream in the failed state from outside.
func (s *ScriptStream) Fail() {
	s.mu.Lock()
	if s.failed == nil {
		s.failed = s.failure()
	}
	s.cond.Broadcast()
	s.mu.Unlock()
}

// Writes returns a copy of the Write calls so far.
func (s *ScriptStream) Writes() [][]byte {
	s.mu.Lock()
	defer s.mu.Unlock()
	out := make([][]byte, len(s.out))
	copy(out, s.out)
	return out
}

// WaitWrites blocks until n Write calls happened, the stream died, or the
// timeout expired. It reports whether n writes were seen.
func (s *ScriptStream) WaitWrites(n int, timeout time.Duration) bool {
	deadline := time.Now().Add(timeout)
	s.mu.Lock()
	defer s.mu.Unlock()
	for len(s.out) < n {
		if s.closed || s.failed != nil || time.Now().After(deadline) {
			return len(s.out) >= n
		}
		waitCond(s.cond, 20*time.Millisecond)
	}
	return true
}

// WaitDrained blocks until the local side consumed everything that was fed.
func (s *ScriptStream) WaitDrained(timeout time.Duration) bool {
	deadline := time.Now().Add(timeout)
	s.mu.Lock()
	defer s.mu.Unlock()
	for len(s.in) > 0 {
		if s.closed || s.failed != nil || time.Now().After(deadline) {
			return len(s.in) == 0
		}
		waitCond(s.cond, 20*time.Millisecond)
	}
	return true
}

// WaitIdle blocks until everything fed was consumed AND the local side is
// blocked in Read waiting for more (which, for an endpoint, means that every
// message fed so far has been dispatched). It returns false on timeout or if
// the stream died first.
func (s *ScriptStream) WaitIdle(timeout time.Duration) bool {
	deadline := time.Now().Add(timeout)
	s.mu.Lock()
	defer s.mu.Unlock()
	for !(len(s.in) == 0 && s.waiters > 0) {
		if s.closed || s.failed != nil || s.inClosed || time.Now().After(deadline) {
			return false
		}
		waitCond(s.cond, 20*time.Millisecond)
	}
	return true
}

// Closed reports whether the local side closed the stream, and how often.
func (s *ScriptStream) Closed() (bool, int) {
	s.mu.Lock()
	defer s.mu.Unlock()
	return s.closed, s.closeCount
}

// Dead reports whether the stream failed or was closed.
func (s *ScriptStream) Dead() bool {
	s.mu.Lock()
	defer s.mu.Unlock()
	return s.closed || s.failed != nil
}

// FaultInfo reports whether the fault fired and at which operation.
func (s *ScriptStream) FaultInfo() (bool, int, string) {
	s.mu.Lock()
	defer s.mu.Unlock()
	return s.Fired, s.FiredOp, s.FiredKind
}

// waitCond waits on the condition with a timeout; the lock must be held.
func waitCond(c *sync.Cond, d time.Duration) {
	t := time.AfterFunc(d, func() { c.Broadcast() })
	c.Wait()
	t.Stop()
}

func (f Fault) String() string { return fmt.Sprintf("%s@%d(part %d)", f.Kind, f.At, f.Part) }
