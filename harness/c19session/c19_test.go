// Package c19session decides C19: a session can be shared by concurrent
// goroutines.
package c19session

import (
	"context"
	"encoding/json"
	"fmt"
	"io"
	"log"
	gonet "net"
	"os"
	"path/filepath"
	"strings"
	"sync"
	"sync/atomic"
	"testing"
	"time"

	"github.com/lugu/qiloop/bus"
	qnet "github.com/lugu/qiloop/bus/net"
	"github.com/lugu/qiloop/bus/services"
	"github.com/lugu/qiloop/bus/session"
	"github.com/lugu/qiloop/examples/pong"
	"github.com/lugu/qiloop/type/object"
	"pgregory.net/rapid"
	"verif/harness/hio"
	"verif/harness/netkit"
	"verif/harness/probe"
	"verif/harness/vt"
)

const prop = "C19"

func TestMain(m *testing.M) {
	log.SetOutput(io.Discard)
	vt.Main(m)
}

// Case: servers[k] = number of services hosted behind endpoint k; each
// goroutine requests proxies for a list of (server, service) pairs.
type Case struct {
	Servers    []int      `json:"servers"`
	Goroutines [][][2]int `json:"goroutines"`
	Transport  string     `json:"transport"` // unix | tcp
	// Decoys: endpoints which the servers advertise ahead of the one they listen
	// on: 1 an address of the range which endpoint selection always skips, 2 a
	// unix socket nobody listens on, 3 both
	Decoys int `json:"decoys,omitempty"`
	Procs      int        `json:"procs,omitempty"`
	// BigTag > 0: every other verification call carries an argument of that
	// many bytes (requests and replies larger than common buffer sizes travel
	// on the shared connection together with the other goroutines' traffic).
	BigTag int `json:"big_tag,omitempty"`
	// Churn: while the goroutines ask for proxies, another service keeps being
	// registered and unregistered (the session's list of services is refreshed
	// under their feet); it is never the one they ask for
	Churn bool `json:"churn,omitempty"`
	// Late: this many services are registered one right after the other while
	// the goroutines are at work, after the session was created: the session
	// hears of them through the directory's signals. Once they are registered,
	// requests for them succeed too (the harness allows the news fifteen seconds)
	Late int `json:"late,omitempty"`
	// Objects: every other request is for an object (Session.Object with a
	// reference obtained beforehand through another session) instead of a proxy by name
	Objects bool `json:"objects,omitempty"`
	// Cancellers: this many further goroutines call a service through a proxy of
	// the same session and cancel each call (context) at about the time its
	// answer arrives, all along
	Cancellers int `json:"cancellers,omitempty"`
	// Missing: this many further goroutines keep asking the same session for
	// what does not exist (an object which a registered service does not have,
	// a service nobody registered): their requests fail, as they must, and that
	// is nobody else's business; proxies handed out before keep working
	Missing int `json:"missing,omitempty"`
	// Stalled: somebody subscribed to a signal through the same session and
	// does not read; the service emits this many events meanwhile (beyond the
	// capacity of a subscription the events of that subscriber are shed: its
	// loss, nobody else's)
	Stalled int `json:"stalled,omitempty"`
	// NoCreds: the session is created without explicit credentials
	// (session.NewSession); Stuck: one more service is registered whose endpoint
	// accepts connections and never says anything, and a goroutine asks for it
	// all along (it waits, which is its business): the requests for the other
	// services are served meanwhile
	NoCreds bool `json:"no_creds,omitempty"`
	Stuck   bool `json:"stuck,omitempty"`
}

func genCase(t *rapid.T) Case {
	c := Case{Transport: rapid.SampledFrom([]string{"unix", "unix", "tcp"}).Draw(t, "transport")}
	c.Decoys = rapid.SampledFrom([]int{0, 0, 0, 1, 2, 3}).Draw(t, "decoys")
	ns := rapid.IntRange(1, 3).Draw(t, "servers")
	for i := 0; i < ns; i++ {
		c.Servers = append(c.Servers, rapid.IntRange(1, 4).Draw(t, "services"))
	}
	maxG := 16
	if vt.Known("C19:server-queue-overflow") {
		// known finding: more than 10 calls in flight on one connection make the
		// server shed load ("consumer blocked") and Proxy fails. Excluded by
		// construction: at most 8 goroutines, each with one call in flight.
		maxG = 8
		vt.Excluded("C19:server-queue-overflow")
	}
	if rapid.IntRange(0, 2).Draw(t, "cancel") == 0 {
		c.Cancellers = rapid.IntRange(1, 2).Draw(t, "cancellers")
		// a cancelled call is two messages (the call, its cancellation): the
		// number in flight on one connection stays within what the server queues
		if maxG > 8-3*c.Cancellers {
			maxG = 8 - 3*c.Cancellers
		}
	}
	if rapid.IntRange(0, 2).Draw(t, "missing") == 0 {
		c.Missing = rapid.IntRange(1, 2).Draw(t, "nmissing")
		maxG -= c.Missing
		if maxG < 2 {
			maxG = 2
		}
	}
	if rapid.IntRange(0, 3).Draw(t, "stalled") == 0 {
		c.Stalled = rapid.SampledFrom([]int{50, 150, 400}).Draw(t, "nstalled")
	}
	c.NoCreds = rapid.IntRange(0, 2).Draw(t, "nocreds") == 0
	c.Stuck = rapid.IntRange(0, 3).Draw(t, "stuck") == 0
	c.BigTag = rapid.SampledFrom([]int{0, 0, 2100, 5000, 70000}).Draw(t, "bigtag")
	c.Churn = rapid.Bool().Draw(t, "churn")
	c.Objects = rapid.Bool().Draw(t, "objects")

	if rapid.IntRange(0, 2).Draw(t, "late") == 0 {
		c.Late = rapid.IntRange(1, 6).Draw(t, "nlate")
	}
	g := rapid.IntRange(2, maxG).Draw(t, "goroutines")
	for i := 0; i < g; i++ {
		n := rapid.IntRange(1, 4).Draw(t, "requests")
		var reqs [][2]int
		for j := 0; j < n; j++ {
			s := rapid.IntRange(0, ns-1).Draw(t, "server")
			reqs = append(reqs, [2]int{s, rapid.IntRange(0, c.Servers[s]-1).Draw(t, "service")})
		}
		c.Goroutines = append(c.Goroutines, reqs)
	}
	return c
}

const bound = 20 * time.Second

func checkCase(c Case) error {
	vt.Journal(prop, "TestShared", "C19:process-died", c)
	defer vt.JournalDone(prop, "TestShared")
	env, err := netkit.StartServer(bus.Yes{})
	if err != nil {
		return vt.Violationf("C19:setup", "server: %v", err)
	}
	defer env.Close()
	registrar, err := session.NewAuthSession(env.Addr, "u", "t")
	if err != nil {
		return vt.Violationf("C19:setup", "registrar: %v", err)
	}
	defer registrar.Terminate()
	dir, _ := os.MkdirTemp("", "c19")
	defer os.RemoveAll(dir)
	journal := &probe.Journal{}
	// services registered before everything else: unregistering one of them
	// later moves every other entry of a list ordered by age
	var early []bus.Service
	var emitter *probe.Pong
	if c.Churn {
		for k := 0; k < 8; k++ {
			_, actor := probe.NewPong("early", journal)
			svc, err := env.Server.NewService(fmt.Sprintf("Early%d", k), actor)
			if err != nil {
				return vt.Violationf("C19:setup", "NewService: %v", err)
			}
			early = append(early, svc)
		}
	}
	var listeners []*hio.CountingListener
	for k, n := range c.Servers {
		addr := "unix://" + filepath.Join(dir, fmt.Sprintf("s%d", k))
		if c.Transport == "tcp" {
			addr = "tcp://127.0.0.1:0"
		}
		l, err := qnet.Listen(addr)
		if err != nil {
			return vt.Violationf("C19:setup", "listen: %v", err)
		}
		if c.Transport == "tcp" {
			// find the port that was picked: listen again on a fixed free port instead
			l.Close()
			port := 20000 + (os.Getpid()*7+k*131+int(time.Now().UnixNano()/1000)%9000)%30000
			addr = fmt.Sprintf("tcp://127.0.0.1:%d", port)
			if l, err = qnet.Listen(addr); err != nil {
				vt.Note("tcp port busy: %v", err)
				vt.Case(false, "busy", "tcp-port-busy")
				return nil
			}
		}
		cl := &hio.CountingListener{Listener: l}
		listeners = append(listeners, cl)
		advertised := []string{addr}
		if c.Decoys&2 != 0 {
			advertised = append([]string{"unix://" + filepath.Join(dir, "nobody-listens")}, advertised...)
		}
		if c.Decoys&1 != 0 {
			advertised = append([]string{"tcp://198.18.0.1:9559"}, advertised...)
		}
		if c.Decoys != 0 {
			vt.Label("several-endpoints-advertised(first-not-the-one-connected)")
		}
		ns, err := services.Namespace(registrar, advertised)
		if err != nil {
			return vt.Violationf("C19:setup", "namespace: %v", err)
		}
		srv, err := bus.StandAloneServer(cl, bus.Yes{}, ns)
		if err != nil {
			return vt.Violationf("C19:setup", "standalone server: %v", err)
		}
		defer srv.Terminate()
		for j := 0; j < n; j++ {
			name := fmt.Sprintf("S%d_%d", k, j)
			pp, actor := probe.NewPong(name, journal)
			if _, err := srv.NewService(name, actor); err != nil {
				return vt.Violationf("C19:setup", "NewService(%s): %v", name, err)
			}
			if k == 0 && j == 0 {
				emitter = pp
			}
		}
	}
	// a service behind an endpoint which accepts and stays silent
	var stuckConns []gonet.Conn
	var stuckMu sync.Mutex
	releaseStuck := func() {}
	if c.Stuck {
		sl, err := gonet.Listen("unix", filepath.Join(dir, "stuck"))
		if err != nil {
			return vt.Violationf("C19:setup", "listen: %v", err)
		}
		go func() {
			for {
				conn, err := sl.Accept()
				if err != nil {
					return
				}
				stuckMu.Lock()
				stuckConns = append(stuckConns, conn)
				stuckMu.Unlock()
			}
		}()
		var once sync.Once
		releaseStuck = func() {
			once.Do(func() {
				sl.Close()
				stuckMu.Lock()
				for _, conn := range stuckConns {
					conn.Close()
				}
				stuckMu.Unlock()
			})
		}
		defer releaseStuck()
		sd, err := services.ServiceDirectory(registrar)
		if err != nil {
			return vt.Violationf("C19:setup", "directory proxy: %v", err)
		}
		id, err := sd.RegisterService(services.ServiceInfo{Name: "Stuck", MachineId: "m", ProcessId: 1, Endpoints: []string{"unix://" + filepath.Join(dir, "stuck")}, SessionId: "s"})
		if err == nil {
			err = sd.ServiceReady(id)
		}
		if err != nil {
			return vt.Violationf("C19:setup", "registering the silent service: %v", err)
		}
	}
	var sess bus.Session
	if c.NoCreds {
		sess, err = session.NewSession(env.Addr)
	} else {
		sess, err = session.NewAuthSession(env.Addr, "u", "t")
	}
	if err != nil {
		return vt.Violationf("C19:setup", "session: %v", err)
	}
	defer sess.Terminate()
	stuckDone := make(chan struct{})
	startStuck := make(chan struct{})
	if c.Stuck {
		go func() {
			defer close(stuckDone)
			<-startStuck
			sess.Proxy("Stuck", 1) // comes back when the silent endpoint is closed
		}()
	} else {
		close(stuckDone)
	}
	// references to the objects, obtained through another session
	refs := map[string]object.ObjectReference{}
	if c.Objects {
		scout, err := session.NewAuthSession(env.Addr, "u", "t")
		if err != nil {
			return vt.Violationf("C19:setup", "session: %v", err)
		}
		for k, n := range c.Servers {
			for j := 0; j < n; j++ {
				name := fmt.Sprintf("S%d_%d", k, j)
				px, err := scout.Proxy(name, 1)
				if err != nil {
					scout.Terminate()
					return vt.Violationf("C19:setup", "scout proxy of %s: %v", name, err)
				}
				ref := bus.ObjectReference(px)
				if (k+j)%2 == 0 {
					// a reference which describes the interface only, not the
					// generic actions every object has (ids below 100)
					mo := ref.MetaObject
					methods := map[uint32]object.MetaMethod{}
					for id, m := range mo.Methods {
						if id >= 100 {
							methods[id] = m
						}
					}
					signals := map[uint32]object.MetaSignal{}
					for id, sg := range mo.Signals {
						if id >= 100 {
							signals[id] = sg
						}
					}
					mo.Methods, mo.Signals, mo.Properties = methods, signals, map[uint32]object.MetaProperty{}
					ref.MetaObject = mo
				}
				refs[name] = ref
			}
		}
		scout.Terminate()
		// the scout's connections are gone before the session under test dials
		for _, l := range listeners {
			for deadline := time.Now().Add(5 * time.Second); l.Live() > 0 && time.Now().Before(deadline); {
				time.Sleep(200 * time.Microsecond)
			}
		}
	}
	stalledDone := make(chan struct{})
	startStalled := make(chan struct{})
	if c.Stalled > 0 && emitter != nil {
		px, err := sess.Proxy("S0_0", 1)
		if err != nil {
			return vt.Violationf("C19:proxy-failed", "Proxy(S0_0): %v", err)
		}
		cancelSub, stalledCh, err := pong.MakePingPong(sess, px).SubscribePong()
		if err != nil {
			return vt.Violationf("C19:setup", "SubscribePong: %v", err)
		}
		defer func() {
			// the subscriber wakes up at the end, reads what is left and leaves
			go func() {
				for range stalledCh {
				}
			}()
			cancelSub()
		}()
		go func() {
			defer close(stalledDone)
			<-startStalled
			for k := 0; k < c.Stalled; k++ {
				emitter.Emit(fmt.Sprintf("e%d", k))
			}
		}()
	} else {
		close(stalledDone)
	}
	acceptedBefore := make([]int32, len(listeners))
	for k, l := range listeners {
		acceptedBefore[k] = atomic.LoadInt32(&l.Accepted)
	}
	// the session learns about the services through directory signals or its
	// initial list: all services were registered before it was created.
	start := make(chan struct{})
	var wg sync.WaitGroup
	var firstErr atomic.Value
	for gi, reqs := range c.Goroutines {
		wg.Add(1)
		go func(gi int, reqs [][2]int) {
			defer wg.Done()
			<-start
			for ri, r := range reqs {
				name := fmt.Sprintf("S%d_%d", r[0], r[1])
				var px bus.Proxy
				var err error
				if c.Objects && (gi+ri)%2 == 1 {
					px, err = sess.Object(refs[name])
				} else {
					px, err = sess.Proxy(name, 1)
				}
				if err != nil {
					cls := "C19:proxy-failed"
					if strings.Contains(err.Error(), "consumer blocked") {
						cls = "C19:server-queue-overflow"
					}
					firstErr.Store(vt.Violationf(cls, "goroutine %d of %d: Proxy(%q) of a registered service failed: %v", gi, len(c.Goroutines), name, err))
					return
				}
				tag := fmt.Sprintf("g%dr%d", gi, ri)
				if c.BigTag > 0 && (gi+ri)%2 == 0 {
					tag += strings.Repeat("p", c.BigTag)
				}
				res, err := pong.MakePingPong(sess, px).Hello(tag)
				if err != nil && strings.Contains(err.Error(), "consumer blocked") {
					firstErr.Store(vt.Violationf("C19:server-queue-overflow", "goroutine %d of %d: call through the proxy of %q was refused: %v", gi, len(c.Goroutines), name, err))
					return
				}
				if err != nil || res != "r:"+tag {
					firstErr.Store(vt.Violationf("C19:proxy-broken", "goroutine %d: proxy of %q answered (%.40q..., %v) to %.40s... (%d bytes)", gi, name, res, err, tag, len(tag)))
					return
				}
			}
		}(gi, reqs)
	}
	stopChurn := make(chan struct{})
	churnDone := make(chan struct{})
	if c.Churn {
		go func() {
			defer close(churnDone)
			<-start
			for k := 0; ; k++ {
				select {
				case <-stopChurn:
					return
				default:
				}
				if len(early) > 0 {
					early[0].Terminate()
					early = early[1:]
					continue
				}
				_, actor := probe.NewPong("churn", journal)
				svc, err := env.Server.NewService(fmt.Sprintf("Churn%d", k%3), actor)
				if err != nil {
					continue
				}
				time.Sleep(time.Duration(20*(k%5)) * time.Microsecond)
				svc.Terminate()
			}
		}()
	} else {
		close(churnDone)
	}
	missingDone := make(chan struct{})
	stopMissing := make(chan struct{})
	var held []bus.Proxy
	var heldNames []string
	if c.Missing > 0 {
		for k := range c.Servers {
			name := fmt.Sprintf("S%d_0", k)
			px, err := sess.Proxy(name, 1)
			if err != nil {
				return vt.Violationf("C19:proxy-failed", "Proxy(%s): %v", name, err)
			}
			held, heldNames = append(held, px), append(heldNames, name)
		}
		var mw sync.WaitGroup
		for g := 0; g < c.Missing; g++ {
			mw.Add(1)
			go func(g int) {
				defer mw.Done()
				<-start
				for k := 0; ; k++ {
					select {
					case <-stopMissing:
						return
					default:
					}
					if (k+g)%2 == 0 {
						if px, err := sess.Proxy(fmt.Sprintf("S%d_0", k%len(c.Servers)), 4242); err == nil {
							// (a proxy of an object which does not exist: its calls fail)
							if _, err := pong.MakePingPong(sess, px).Hello("quiet:nobody"); err == nil {
								firstErr.Store(vt.Violationf("C19:missing-object-answers", "a call to object 4242, which no service has, was answered"))
								return
							}
						}
					} else {
						sess.Proxy("NobodyRegisteredThis", 1)
					}
					time.Sleep(50 * time.Microsecond)
				}
			}(g)
		}
		go func() { mw.Wait(); close(missingDone) }()
	} else {
		close(missingDone)
	}
	cancelDone := make(chan struct{})
	stopCancel := make(chan struct{})
	if c.Cancellers > 0 {
		cpx, err := sess.Proxy("S0_0", 1)
		if err != nil {
			return vt.Violationf("C19:proxy-failed", "Proxy(S0_0): %v", err)
		}
		var cw sync.WaitGroup
		for g := 0; g < c.Cancellers; g++ {
			cw.Add(1)
			go func(g int) {
				defer cw.Done()
				<-start
				for k := 0; ; k++ {
					select {
					case <-stopCancel:
						return
					default:
					}
					ctx, cancel := context.WithCancel(context.Background())
					d := time.Duration([]int{0, 10, 40, 120}[(k+g)%4]) * time.Microsecond
					go func() { time.Sleep(d); cancel() }()
					pong.MakePingPong(sess, cpx).WithContext(ctx).Hello(fmt.Sprintf("quiet:c%dk%d", g, k))
					cancel()
					// a cancelled call comes back before the server has seen it: a plain
					// call behind it keeps what this goroutine has in flight bounded
					pong.MakePingPong(sess, cpx).Hello("quiet:behind")
				}
			}(g)
		}
		go func() { cw.Wait(); close(cancelDone) }()
	} else {
		close(cancelDone)
	}
	lateDone := make(chan struct{})
	go func() {
		defer close(lateDone)
		<-start
		for k := 0; k < c.Late; k++ {
			_, actor := probe.NewPong("late", journal)
			if _, err := env.Server.NewService(fmt.Sprintf("Late%d", k), actor); err != nil {
				firstErr.Store(vt.Violationf("C19:setup", "NewService(Late%d): %v", k, err))
				return
			}
		}
	}()
	close(startStuck)
	if c.Stuck {
		time.Sleep(300 * time.Microsecond) // the request for the silent service is under way
	}
	close(start)
	close(startStalled)
	done := make(chan struct{})
	go func() {
		wg.Wait()
		close(stopChurn)
		close(stopCancel)
		close(stopMissing)
		<-churnDone
		<-lateDone
		<-cancelDone
		<-missingDone
		<-stalledDone
		releaseStuck()
		<-stuckDone
		close(done)
	}()
	select {
	case <-done:
	case <-time.After(bound):
		return vt.Violationf("C19:hang", "concurrent Proxy requests did not finish within %v", bound)
	}
	if e := firstErr.Load(); e != nil {
		return e.(*vt.Violation)
	}
	// proxies handed out before the requests for missing things still work
	for k, px := range held {
		tag := fmt.Sprintf("held%d", k)
		if res, err := pong.MakePingPong(sess, px).Hello(tag); err != nil || res != "r:"+tag {
			return vt.Violationf("C19:proxy-broken", "the proxy of %q handed out before other goroutines asked for things which do not exist answered (%q, %v) to %s", heldNames[k], res, err, tag)
		}
	}
	// the services registered meanwhile are registered now: requests for them
	// succeed, from several goroutines at once
	if c.Late > 0 {
		var lw sync.WaitGroup
		for g := 0; g < 3; g++ {
			lw.Add(1)
			go func(g int) {
				defer lw.Done()
				for k := 0; k < c.Late; k++ {
					name := fmt.Sprintf("Late%d", (k+g)%c.Late)
					var px bus.Proxy
					var err error
					for deadline := time.Now().Add(15 * time.Second); ; time.Sleep(2 * time.Millisecond) {
						if px, err = sess.Proxy(name, 1); err == nil || time.Now().After(deadline) {
							break
						}
					}
					if err != nil {
						firstErr.Store(vt.Violationf("C19:registered-service-not-found", "%d services were registered one after the other while the session was in use; fifteen seconds later Proxy(%q) still fails: %v", c.Late, name, err))
						return
					}
					tag := fmt.Sprintf("late%dg%d", k, g)
					if res, err := pong.MakePingPong(sess, px).Hello(tag); err != nil || res != "r:"+tag {
						firstErr.Store(vt.Violationf("C19:proxy-broken", "proxy of %q answered (%q, %v) to %s", name, res, err, tag))
						return
					}
				}
			}(g)
		}
		lw.Wait()
		if e := firstErr.Load(); e != nil {
			return e.(*vt.Violation)
		}
	}
	// quiescence: at most one live connection per endpoint
	contended := false
	for k, l := range listeners {
		deadline := time.Now().Add(5 * time.Second)
		for l.Live() > 1 && time.Now().Before(deadline) {
			time.Sleep(200 * time.Microsecond)
		}
		if atomic.LoadInt32(&l.Accepted)-acceptedBefore[k] >= 2 {
			contended = true
		}
		if live := l.Live(); live > 1 {
			return vt.Violationf("C19:duplicate-connection", "endpoint %d: the session holds %d live connections (accepted %d, closed %d)", k, live, l.Accepted, l.Closed)
		}
	}
	key, _ := json.Marshal(c)
	labels := []string{fmt.Sprintf("servers=%d", len(c.Servers)), "transport=" + c.Transport}
	if c.Churn {
		labels = append(labels, "service-list-refreshed-meanwhile")
	}
	if c.Late > 0 {
		labels = append(labels, "services-registered-meanwhile")
	}
	if c.Missing > 0 {
		labels = append(labels, "requests-for-missing-things-meanwhile")
	}
	if c.Stalled > 0 {
		labels = append(labels, "a-subscriber-of-the-session-does-not-read")
	}
	if c.Stuck {
		labels = append(labels, "a-request-for-a-service-behind-a-silent-endpoint-pending")
	}
	if c.NoCreds {
		labels = append(labels, "session-without-explicit-credentials")
	}
	if c.Objects {
		labels = append(labels, "objects-by-reference")
	}
	if c.Cancellers > 0 {
		labels = append(labels, "cancelled-calls-beside")
	}
	if contended {
		labels = append(labels, "concurrent-dial-of-one-endpoint")
	}
	vt.Case(contended, string(key), labels...)
	if contended {
		vt.Sample("run", map[string]interface{}{"servers": c.Servers, "goroutines": len(c.Goroutines), "transport": c.Transport})
	}
	return nil
}

func TestShared(t *testing.T) { vt.Run(t, prop, "TestShared", genCase, checkCase) }

func TestReplay(t *testing.T) {
	vt.Replay(t, map[string]func(json.RawMessage) error{"TestShared": vt.Decode(checkCase)})
}
