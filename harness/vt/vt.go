// Package vt holds the small amount of plumbing shared by every property
// package of the harness: per-run statistics (cases, distinct non-trivial
// cases, labels, samples), failure files that double as replay files, and
// access to the environment the driver (/verif/vcheck) sets up.
//
// Nothing in here makes a random choice; all randomness comes from rapid.
package vt

import (
	"encoding/json"
	"fmt"
	"hash/fnv"
	"os"
	"path/filepath"
	"runtime"
	"sort"
	"strconv"
	"strings"
	"sync"
	"testing"
	"time"
)

// Failure is the on-disk form of a violation found by a check. The same file
// is the replay file: `vcheck <ID> --replay <file>` feeds Case back into the
// property's plain (library-free) check function.
type Failure struct {
	Property string          `json:"property"`
	Test     string          `json:"test"`
	Class    string          `json:"class"`
	Message  string          `json:"message"`
	Case     json.RawMessage `json:"case"`
}

type stats struct {
	mu          sync.Mutex
	Evaluations int64            `json:"evaluations"`
	Nontrivial  int64            `json:"nontrivial_evaluations"`
	Labels      map[string]int64 `json:"labels"`
	Samples     []interface{}    `json:"samples"`
	Notes       []string         `json:"notes"`
	Excluded    map[string]int64 `json:"excluded"`
	Failures    []string         `json:"failures"`
	distinct    map[uint64]struct{}
	Distinct    int64   `json:"distinct_nontrivial"`
	WallS       float64 `json:"wall_s"`
	start       time.Time
	sampleEvery int64
}

var st = &stats{
	Labels:   map[string]int64{},
	Excluded: map[string]int64{},
	distinct: map[uint64]struct{}{},
	start:    time.Now(),
}

const maxSamples = 6

// Main is called from TestMain of every property package.
func Main(m *testing.M) {
	code := m.Run()
	Flush()
	os.Exit(code)
}

// Flush writes the statistics file if the driver asked for one.
func Flush() {
	path := os.Getenv("VERIF_STATS")
	if path == "" {
		return
	}
	st.mu.Lock()
	defer st.mu.Unlock()
	st.Distinct = int64(len(st.distinct))
	st.WallS = time.Since(st.start).Seconds()
	data, err := json.Marshal(st)
	if err != nil {
		fmt.Fprintf(os.Stderr, "vt: cannot marshal stats: %v\n", err)
		return
	}
	tmp := path + ".tmp"
	if err := os.WriteFile(tmp, data, 0o644); err == nil {
		os.Rename(tmp, path)
	}
}

// Case records one generated case. key identifies the case for the purpose of
// counting distinct cases (any canonical rendering of it); nontrivial says
// whether it satisfies the property's stated non-triviality rule.
func Case(nontrivial bool, key string, labels ...string) {
	st.mu.Lock()
	defer st.mu.Unlock()
	st.Evaluations++
	if nontrivial {
		st.Nontrivial++
		h := fnv.New64a()
		h.Write([]byte(key))
		st.distinct[h.Sum64()] = struct{}{}
	}
	for _, l := range labels {
		if l != "" {
			st.Labels[l]++
		}
	}
}

// Label bumps a class counter without counting a case.
func Label(labels ...string) {
	st.mu.Lock()
	defer st.mu.Unlock()
	for _, l := range labels {
		if l != "" {
			st.Labels[l]++
		}
	}
}

// LabelN adds n to a class counter.
func LabelN(label string, n int64) {
	st.mu.Lock()
	defer st.mu.Unlock()
	st.Labels[label] += n
}

// Excluded counts a case (class) that the generator left out by construction
// because it is a listed known finding.
func Excluded(class string) {
	st.mu.Lock()
	defer st.mu.Unlock()
	st.Excluded[class]++
}

// Sample keeps a few of the cases of this run, written out for the evidence.
// Only non-trivial cases should be offered. Selection is deterministic: the
// 1st, 2nd, 4th, 8th ... offered case is kept until maxSamples are held.
func Sample(kind string, v interface{}) {
	st.mu.Lock()
	defer st.mu.Unlock()
	st.sampleEvery++
	n := st.sampleEvery
	if n&(n-1) != 0 { // not a power of two
		return
	}
	entry := map[string]interface{}{"kind": kind, "case": v}
	if len(st.Samples) < maxSamples {
		st.Samples = append(st.Samples, entry)
	} else {
		st.Samples[int(n)%maxSamples] = entry
	}
}

// Note attaches free text to the statistics (shown in the evidence).
func Note(format string, args ...interface{}) {
	st.mu.Lock()
	defer st.mu.Unlock()
	if len(st.Notes) < 50 {
		st.Notes = append(st.Notes, fmt.Sprintf(format, args...))
	}
}

// Violation describes a failed check of one case.
type Violation struct {
	Class string // fingerprint: which input class / call site / history shape
	Msg   string
}

func (v *Violation) Error() string { return v.Class + ": " + v.Msg }

// ClassOf returns the class of a violation (the empty string for another error).
func ClassOf(err error) string {
	if v, ok := err.(*Violation); ok {
		return v.Class
	}
	return ""
}

// Violationf builds a Violation.
func Violationf(class, format string, args ...interface{}) *Violation {
	msg := fmt.Sprintf(format, args...)
	if len(msg) > 6000 {
		msg = msg[:3000] + fmt.Sprintf(" ... [%d bytes left out] ... ", len(msg)-6000) + msg[len(msg)-3000:]
	}
	return &Violation{Class: class, Msg: msg}
}

var failSeq int64

// SaveFailure writes the failing case to $VERIF_FAILDIR (if set) and returns
// the path. It is called on every failing evaluation; rapid re-executes the
// property while shrinking, so the file written last for a test holds the
// minimal case. Files are named per test so later (smaller) cases overwrite
// earlier ones.
func SaveFailure(property, test string, c interface{}, v *Violation) string {
	dir := os.Getenv("VERIF_FAILDIR")
	if dir == "" {
		return ""
	}
	raw, err := json.Marshal(c)
	if err != nil {
		raw = []byte(strconv.Quote(fmt.Sprintf("unmarshalable case: %v", err)))
	}
	f := Failure{Property: property, Test: test, Class: v.Class, Message: v.Msg, Case: raw}
	data, _ := json.MarshalIndent(f, "", " ")
	shard := os.Getenv("VERIF_SHARD")
	name := fmt.Sprintf("%s-%s-s%s.json", property, test, shard)
	path := filepath.Join(dir, name)
	tmp := path + ".tmp"
	if err := os.WriteFile(tmp, data, 0o644); err != nil {
		return ""
	}
	os.Rename(tmp, path)
	st.mu.Lock()
	found := false
	for _, p := range st.Failures {
		if p == path {
			found = true
		}
	}
	if !found {
		st.Failures = append(st.Failures, path)
	}
	st.mu.Unlock()
	return path
}

// ReplayFile returns the failure to replay, if the driver asked for a replay.
func ReplayFile() (*Failure, bool) {
	path := os.Getenv("VERIF_REPLAY")
	if path == "" {
		return nil, false
	}
	data, err := os.ReadFile(path)
	if err != nil {
		fmt.Fprintf(os.Stderr, "vt: cannot read replay file: %v\n", err)
		os.Exit(3)
	}
	var f Failure
	if err := json.Unmarshal(data, &f); err != nil {
		fmt.Fprintf(os.Stderr, "vt: cannot parse replay file: %v\n", err)
		os.Exit(3)
	}
	return &f, true
}

// Known reports whether a class is listed as a known finding for this run
// (comma separated list in $VERIF_KNOWN); generators use it to exclude such
// classes by construction.
func Known(class string) bool {
	for _, k := range strings.Split(os.Getenv("VERIF_KNOWN"), ",") {
		if k != "" && k == class {
			return true
		}
	}
	return false
}

// Tier returns "quick" or "thorough".
func Tier() string {
	if os.Getenv("VERIF_TIER") == "thorough" {
		return "thorough"
	}
	return "quick"
}

// Thorough reports whether the thorough tier is running.
func Thorough() bool { return Tier() == "thorough" }

// EnvInt reads an integer from the environment.
func EnvInt(name string, def int) int {
	if s := os.Getenv(name); s != "" {
		if n, err := strconv.Atoi(s); err == nil {
			return n
		}
	}
	return def
}

// SortedKeys is a helper for deterministic iteration.
func SortedKeys(m map[string]int64) []string {
	keys := make([]string, 0, len(m))
	for k := range m {
		keys = append(keys, k)
	}
	sort.Strings(keys)
	return keys
}

// Check runs the plain check function of a case and turns a violation into a
// saved failure plus a test failure. fatal is t.Fatalf of either *testing.T or
// *rapid.T.
func Check(property, test string, c interface{}, err error, fatal func(string, ...interface{})) {
	if err == nil {
		return
	}
	v, ok := err.(*Violation)
	if !ok {
		v = &Violation{Class: property + ":unclassified", Msg: err.Error()}
	}
	path := SaveFailure(property, test, c, v)
	fatal("VIOLATION-CASE property=%s test=%s class=%s file=%s: %s", property, test, v.Class, path, v.Msg)
}

// Journal records the case that is about to be executed, flushed to disk
// before execution, so that if the process dies (out-of-memory abort, runtime
// fatal error, stack exhaustion) the driver still has the exact input. The
// file is a failure/replay file whose class says the process died.
func Journal(property, test, class string, c interface{}) {
	dir := os.Getenv("VERIF_FAILDIR")
	if dir == "" {
		return
	}
	raw, err := json.Marshal(c)
	if err != nil {
		return
	}
	f := Failure{Property: property, Test: test, Class: class, Message: "the test process died while executing this case", Case: raw}
	data, _ := json.Marshal(f)
	os.WriteFile(journalPath(dir, property, test), data, 0o644)
}

// JournalDone removes the journal entry after the case returned.
func JournalDone(property, test string) {
	dir := os.Getenv("VERIF_FAILDIR")
	if dir == "" {
		return
	}
	os.Remove(journalPath(dir, property, test))
}

func journalPath(dir, property, test string) string {
	return filepath.Join(dir, fmt.Sprintf("%s-%s-s%s.current.json", property, test, os.Getenv("VERIF_SHARD")))
}

// BlockedInLibrary returns the stacks of the goroutines which are blocked
// (mutex, channel, select, condition) inside the library under test, shortened
// to their top frames: the evidence that goes with a "did not return within"
// verdict.
func BlockedInLibrary() string {
	buf := make([]byte, 8<<20)
	n := runtime.Stack(buf, true)
	out, count, idle := "", 0, 0
	for _, g := range strings.Split(string(buf[:n]), "\n\n") {
		if !strings.Contains(g, "github.com/lugu/qiloop/") {
			continue
		}
		head := strings.SplitN(g, "\n", 2)[0]
		blocked := false
		for _, st := range []string{"semacquire", "chan send", "chan receive", "select", "sync.Cond", "sync.Mutex", "sync.RWMutex"} {
			if strings.Contains(head, st) {
				blocked = true
			}
		}
		if !blocked || strings.Contains(head, "IO wait") {
			continue
		}
		if lines := strings.Split(g, "\n"); len(lines) > 1 && strings.Contains(lines[1], "bus.NewMailBox.func1") && strings.Contains(head, "chan receive") {
			idle++ // an idle object mailbox (the library keeps them for ever)
			continue
		}
		lines := strings.Split(g, "\n")
		if len(lines) > 13 {
			lines = lines[:13]
		}
		count++
		if count <= 12 {
			out += strings.Join(lines, "\n") + "\n\n"
		}
	}
	return fmt.Sprintf("%d goroutines blocked inside the library (and %d idle object mailboxes):\n%s", count, idle, out)
}
