package vt

import (
	"encoding/json"
	"testing"

	"pgregory.net/rapid"
)

// Run drives one property with rapid: gen draws a case (pure data), check is
// the plain, library-free check of that case. A violation is saved as a
// failure/replay file before the test fails so the driver can pick it up; the
// file written last holds the shrunk case.
func Run[C any](t *testing.T, property, test string, gen func(*rapid.T) C, check func(C) error) {
	t.Helper()
	if _, replaying := ReplayFile(); replaying {
		t.Skip("replay mode")
	}
	rapid.Check(t, func(rt *rapid.T) {
		c := gen(rt)
		err := check(c)
		Check(property, test, c, err, rt.Fatalf)
	})
}

// Replay re-executes the case stored in $VERIF_REPLAY through check, without
// the generator library. It is the body of TestReplay in every package; tests
// maps the test name recorded in the file to the check function.
func Replay(t *testing.T, tests map[string]func(raw json.RawMessage) error) {
	t.Helper()
	f, ok := ReplayFile()
	if !ok {
		t.Skip("no VERIF_REPLAY")
	}
	fn, ok := tests[f.Test]
	if !ok {
		t.Fatalf("replay file names unknown test %q", f.Test)
	}
	err := fn(f.Case)
	if err == nil {
		t.Logf("REPLAY-PASS property=%s test=%s", f.Property, f.Test)
		return
	}
	v, ok := err.(*Violation)
	if !ok {
		v = &Violation{Class: f.Property + ":unclassified", Msg: err.Error()}
	}
	t.Fatalf("REPLAY-FAIL property=%s test=%s class=%s: %s", f.Property, f.Test, v.Class, v.Msg)
}

// Decode adapts a typed check function to the raw form Replay wants.
func Decode[C any](check func(C) error) func(json.RawMessage) error {
	return func(raw json.RawMessage) error {
		var c C
		if err := json.Unmarshal(raw, &c); err != nil {
			return &Violation{Class: "replay:bad-file", Msg: err.Error()}
		}
		return check(c)
	}
}
