package vt

import (
	"encoding/json"
	"fmt"
	"os"
	"testing"
	"time"

	"pgregory.net/rapid"
)

// Run drives one property with rapid: gen draws a case (pure data), check is
// the plain, library-free check of that case. A violation is saved as a
// failure/replay file before the test fails so the driver can pick it up; the
// file written last holds the shrunk case.
func Run[C any](t *testing.T, property, test string, gen func(*rapid.T) C, check func(C) error) {
	t.Helper()
	if _, replaying := ReplayFile(); replaying {
		t.Skip("replay mode")
	}
	rapid.Check(t, func(rt *rapid.T) {
		c := gen(rt)
		err, hung := guarded(func() error { return check(c) })
		if hung {
			// the case never came back: the goroutine stuck in it cannot be
			// stopped, so neither shrinking nor going on makes sense. Save the
			// case as it is and leave at once.
			v := Violationf(property+":hang", "the check of this case did not return within %v (a decoder, parser or call that never comes back)\n%s", Watchdog, BlockedInLibrary())
			path := SaveFailure(property, test, c, v)
			Flush()
			fmt.Printf("VIOLATION-CASE property=%s test=%s class=%s file=%s: %s\n", property, test, v.Class, path, v.Msg)
			os.Exit(1)
		}
		Check(property, test, c, err, rt.Fatalf)
	})
}

// Watchdog is the time a single case may take before it is declared hung. The
// checks bound their own waits (10 to 30 s) and report those as violations of
// their own; this is the net under everything else, e.g. a decoder which
// dead-locks. Packages whose cases legitimately take long raise it in TestMain.
var Watchdog = 120 * time.Second

// guarded runs f in its own goroutine and waits for it at most Watchdog. A
// panic in f is re-raised in the caller (rapid reports and shrinks it).
func guarded(f func() error) (err error, hung bool) {
	type outcome struct {
		err error
		p   interface{}
	}
	done := make(chan outcome, 1)
	go func() {
		var o outcome
		defer func() {
			if p := recover(); p != nil {
				o.p = p
			}
			done <- o
		}()
		o.err = f()
	}()
	timer := time.NewTimer(Watchdog)
	defer timer.Stop()
	select {
	case o := <-done:
		if o.p != nil {
			panic(o.p)
		}
		return o.err, false
	case <-timer.C:
		return nil, true
	}
}

// Replay re-executes the case stored in $VERIF_REPLAY through check, without
// the generator library. It is the body of TestReplay in every package; tests
// maps the test name recorded in the file to the check function.
func Replay(t *testing.T, tests map[string]func(raw json.RawMessage) error) {
	t.Helper()
	f, ok := ReplayFile()
	if !ok {
		t.Skip("no VERIF_REPLAY")
	}
	fn, ok := tests[f.Test]
	if !ok {
		t.Fatalf("replay file names unknown test %q", f.Test)
	}
	err, hung := guarded(func() error { return fn(f.Case) })
	if hung {
		t.Fatalf("REPLAY-FAIL property=%s test=%s class=%s:hang: the check of this case did not return within %v\n%s", f.Property, f.Test, f.Property, Watchdog, BlockedInLibrary())
	}
	if err == nil {
		t.Logf("REPLAY-PASS property=%s test=%s", f.Property, f.Test)
		return
	}
	v, ok := err.(*Violation)
	if !ok {
		v = &Violation{Class: f.Property + ":unclassified", Msg: err.Error()}
	}
	t.Fatalf("REPLAY-FAIL property=%s test=%s class=%s: %s", f.Property, f.Test, v.Class, v.Msg)
}

// Decode adapts a typed check function to the raw form Replay wants.
func Decode[C any](check func(C) error) func(json.RawMessage) error {
	return func(raw json.RawMessage) error {
		var c C
		if err := json.Unmarshal(raw, &c); err != nil {
			return &Violation{Class: "replay:bad-file", Msg: err.Error()}
		}
		return check(c)
	}
}
