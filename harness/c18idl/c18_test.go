// Package c18idl decides C18: MetaObject -> IDL -> MetaObject is the identity
// and the IDL parser is total.
package c18idl

import (
	"bytes"
	"encoding/json"
	"fmt"
	"sort"
	"strings"
	"testing"
	"time"

	"github.com/lugu/qiloop/meta/idl"
	"github.com/lugu/qiloop/type/object"
	"pgregory.net/rapid"
	"verif/harness/gen"
	"verif/harness/ref"
	"verif/harness/vt"
)

const prop = "C18"

func TestMain(m *testing.M) {
	vt.Watchdog = 30 * time.Second
	vt.Main(m)
}

// Method, Signal, Prop, Itf and Case describe a package of meta-objects by
// signature strings only (struct definitions are embedded in the signatures,
// as they are in a real MetaObject).
type Method struct {
	ID         uint32   `json:"id"`
	Name       string   `json:"name"`
	Params     string   `json:"params"` // tuple signature
	Ret        string   `json:"ret"`
	ParamNames []string `json:"param_names,omitempty"`
}

type Signal struct {
	ID   uint32 `json:"id"`
	Name string `json:"name"`
	Sig  string `json:"sig"`
}

type Itf struct {
	Name    string   `json:"name"`
	Methods []Method `json:"methods"`
	Signals []Signal `json:"signals"`
	Props   []Signal `json:"props"`
}

type Case struct {
	Package string `json:"package"`
	Itfs    []Itf  `json:"itfs"`
	// Legacy: an object generated first in the same process and not judged. It
	// uses signature strings of the package together with other definitions of
	// structs of the same names (two revisions of a struct under one name, which
	// the generator has to rename): whatever that does, the package which
	// follows is a fresh one.
	Legacy *Itf `json:"legacy,omitempty"`
}

// identifiers that start with an IDL basic-type keyword
var keywordPrefixed = []string{"int8x", "strategy", "anything", "objective", "boolean", "unknownT", "int32_t", "uint64s", "float32x", "stringy", "anyone", "object"}

// words of the IDL's own vocabulary which are not type names (keywords of
// declarations, the spelling of void in the other direction, words of other
// interface languages): legal identifiers, so legal names of structs, fields,
// actions and parameters. The names of the basic types themselves (int32, str,
// any, obj, unknown ...) are reserved words of the IDL's type position and are
// not used as struct names (a struct called str cannot be told from str).
var idlWords = []string{"nothing", "fn", "sig", "prop", "interface", "end", "enum", "struct", "package", "void", "uid", "in", "out",
	"const", "Object", "Value", "none", "null", "vec", "tuple", "list", "double", "float", "int", "integer", "long", "char", "byte", "boolean", "String", "Nothing"}

var reservedTemplateBases = map[string]bool{"Map": true, "Vec": true, "Tuple": true}

type namer struct {
	used  map[string]bool
	exact map[string]bool
}

// flipFirst changes the case of the first letter.
func flipFirst(s string) string {
	if s[:1] == strings.ToUpper(s[:1]) {
		return strings.ToLower(s[:1]) + s[1:]
	}
	return strings.ToUpper(s[:1]) + s[1:]
}

// variant returns a name which differs from a name already given only by the
// case of its first letter (point / Point), if there is one to be had.
func (n *namer) variant(t *rapid.T, label string) (string, bool) {
	var cands []string
	for k := range n.exact {
		if v := flipFirst(k); v != k && !n.exact[v] && !strings.Contains(k, "<") {
			cands = append(cands, v)
		}
	}
	if len(cands) == 0 {
		return "", false
	}
	sort.Strings(cands)
	v := cands[rapid.IntRange(0, len(cands)-1).Draw(t, label+"_variant")]
	n.exact[v] = true
	return v, true
}

func (n *namer) fresh(t *rapid.T, label string, allowKeywordPrefix bool) string {
	if n.exact == nil {
		n.exact = map[string]bool{}
	}
	for i := 0; ; i++ {
		var s string
		if allowKeywordPrefix && rapid.IntRange(0, 7).Draw(t, label+"_kw") == 0 {
			s = rapid.SampledFrom(keywordPrefixed).Draw(t, label+"_kwname")
		} else if rapid.IntRange(0, 9).Draw(t, label+"_word") == 0 {
			s = rapid.SampledFrom(idlWords).Draw(t, label+"_idlword")
		} else {
			s = gen.Ident().Draw(t, label)
		}
		if i > 3 {
			s = fmt.Sprintf("%s%d", s, i)
		}
		if !n.used[strings.ToLower(s)] {
			n.used[strings.ToLower(s)] = true
			n.exact[s] = true
			return s
		}
	}
}

var leaves = []ref.Kind{ref.KInt8, ref.KUint8, ref.KInt16, ref.KUint16, ref.KInt32, ref.KUint32, ref.KInt64, ref.KUint64,
	ref.KFloat32, ref.KFloat64, ref.KBool, ref.KString, ref.KString, ref.KInt32, ref.KValue, ref.KObject, ref.KUnknown}

func drawType(t *rapid.T, pool []*ref.Type, depth int) *ref.Type {
	kinds := []string{"leaf", "leaf"}
	if len(pool) > 0 {
		kinds = append(kinds, "struct", "struct")
	}
	if depth > 0 {
		kinds = append(kinds, "list", "map", "tuple")
	}
	switch rapid.SampledFrom(kinds).Draw(t, "tk") {
	case "struct":
		return pool[rapid.IntRange(0, len(pool)-1).Draw(t, "pool")]
	case "list":
		return ref.ListOf(drawType(t, pool, depth-1))
	case "map":
		// the key is usually a scalar, but the grammar allows any type: now and
		// then a struct of the pool (which may be its only use in the package)
		var key *ref.Type
		if len(pool) > 0 && rapid.IntRange(0, 4).Draw(t, "structkey") == 0 {
			key = pool[rapid.IntRange(0, len(pool)-1).Draw(t, "keypool")]
		} else {
			key = ref.Scalar(rapid.SampledFrom(gen.KeyScalars).Draw(t, "mk"))
		}
		return ref.MapOf(key, drawType(t, pool, depth-1))
	case "tuple":
		n := rapid.IntRange(1, 3).Draw(t, "tn")
		if rapid.IntRange(0, 11).Draw(t, "emptytuple") == 0 {
			n = 0 // () is a type of the grammar wherever a type may stand
		}
		ms := make([]*ref.Type, n)
		for i := range ms {
			ms[i] = drawType(t, pool, depth-1)
		}
		return ref.TupleOf(ms...)
	}
	return ref.Scalar(rapid.SampledFrom(leaves).Draw(t, "leaf"))
}

func drawTuple(t *rapid.T, pool []*ref.Type, min, max int) *ref.Type {
	n := rapid.IntRange(min, max).Draw(t, "np")
	ms := make([]*ref.Type, n)
	for i := range ms {
		ms[i] = drawType(t, pool, 2)
	}
	return ref.TupleOf(ms...)
}

var goKeywords = []string{"range", "func", "type", "map", "string", "error", "go", "p", "err"}

func genCase(t *rapid.T) Case {
	names := &namer{used: map[string]bool{}}
	kwStructs := !vt.Known("C18:idl-atom-prefix")
	// struct pool
	var pool []*ref.Type
	ns := rapid.IntRange(0, 4).Draw(t, "nstructs")
	for i := 0; i < ns; i++ {
		name := names.fresh(t, "struct", kwStructs)
		// now and then a name which another struct (or, below, an interface)
		// bears with the other case of the first letter: point and Point
		if i > 0 && rapid.IntRange(0, 5).Draw(t, "casevariant") == 0 {
			if v, ok := names.variant(t, "struct"); ok {
				name = v
			}
		}
		if rapid.IntRange(0, 6).Draw(t, "template") == 0 && !reservedTemplateBases[name] {
			name += "<" + gen.Ident().Draw(t, "targ") + ">"
		}
		nf := rapid.IntRange(0, 3).Draw(t, "nfields")
		fn := &namer{used: map[string]bool{}}
		fields := make([]string, nf)
		members := make([]*ref.Type, nf)
		for j := range fields {
			fields[j] = fn.fresh(t, "field", true)
			// now and then a field named like a Go keyword or predeclared name
			// (legal in a signature and in the IDL; generated Go code renames it,
			// the IDL round trip must not)
			if rapid.IntRange(0, 7).Draw(t, "kwfield") == 0 {
				k := rapid.SampledFrom(goKeywords).Draw(t, "fieldkw")
				if !fn.used[k] {
					fn.used[k] = true
					fields[j] = k
				}
			}
			members[j] = drawType(t, pool, 1)
		}
		pool = append(pool, ref.StructOf(name, fields, members))
	}
	// now and then a chain: each struct has a member of the previous one's type
	// (bare, or inside a list or map), five to fourteen levels of named types
	if rapid.IntRange(0, 15).Draw(t, "chain") == 0 {
		depth := rapid.IntRange(5, 14).Draw(t, "chaindepth")
		var prev *ref.Type
		for i := 0; i < depth; i++ {
			name := names.fresh(t, "chainstruct", false)
			fields := []string{"v"}
			members := []*ref.Type{ref.Scalar(rapid.SampledFrom(leaves).Draw(t, "chainleaf"))}
			if prev != nil {
				inner := prev
				switch rapid.IntRange(0, 3).Draw(t, "chainwrap") {
				case 0:
					inner = ref.ListOf(prev)
				case 1:
					inner = ref.MapOf(ref.Scalar(ref.KString), prev)
				}
				fields = append(fields, "next")
				members = append(members, inner)
			}
			prev = ref.StructOf(name, fields, members)
		}
		pool = append(pool, prev)
	}
	c := Case{Package: rapid.SampledFrom([]string{"pkg", "a.b-c", "_x", "unknown", "test1"}).Draw(t, "package")}
	ni := rapid.IntRange(1, 3).Draw(t, "nitf")
	for i := 0; i < ni; i++ {
		itf := Itf{Name: names.fresh(t, "itf", false)}
		// ids are unique within a kind (methods, signals and properties are
		// three separate tables of a meta-object); across kinds they may
		// coincide, as a property and the signal of its changes usually do
		usedIDs := map[string]map[uint32]bool{"method": {}, "signal": {}, "prop": {}}
		var allIDs []uint32
		freshIDOf := func(kind string) uint32 {
			for {
				id := rapid.OneOf(rapid.Uint32Range(100, 140), rapid.Uint32Range(1, 99), rapid.Uint32Range(1, 0xffffffff)).Draw(t, "id")
				if len(allIDs) > 0 && rapid.IntRange(0, 3).Draw(t, "sharedid") == 0 {
					id = allIDs[rapid.IntRange(0, len(allIDs)-1).Draw(t, "whichid")]
				}
				if !usedIDs[kind][id] {
					usedIDs[kind][id] = true
					allIDs = append(allIDs, id)
					return id
				}
			}
		}
		an := &namer{used: map[string]bool{}}
		nm := rapid.IntRange(0, 4).Draw(t, "nmethods")
		for j := 0; j < nm; j++ {
			params := drawTuple(t, pool, 0, 4)
			m := Method{ID: freshIDOf("method"), Name: an.fresh(t, "method", true), Params: params.Sig(), Ret: "v"}
			if rapid.Bool().Draw(t, "hasret") {
				m.Ret = drawType(t, pool, 2).Sig()
			}
			if rapid.Bool().Draw(t, "named") {
				pn := &namer{used: map[string]bool{}}
				for range params.Members {
					if rapid.IntRange(0, 4).Draw(t, "kwparam") == 0 {
						k := rapid.SampledFrom(goKeywords).Draw(t, "kw")
						if !pn.used[k] {
							pn.used[k] = true
							m.ParamNames = append(m.ParamNames, k)
							continue
						}
					}
					m.ParamNames = append(m.ParamNames, pn.fresh(t, "param", true))
				}
			}
			itf.Methods = append(itf.Methods, m)
		}
		nsig := rapid.IntRange(0, 3).Draw(t, "nsignals")
		for j := 0; j < nsig; j++ {
			itf.Signals = append(itf.Signals, Signal{ID: freshIDOf("signal"), Name: an.fresh(t, "signal", true), Sig: drawTuple(t, pool, 1, 3).Sig()})
		}
		np := rapid.IntRange(0, 3).Draw(t, "nprops")
		for j := 0; j < np; j++ {
			itf.Props = append(itf.Props, Signal{ID: freshIDOf("prop"), Name: an.fresh(t, "prop", true), Sig: drawTuple(t, pool, 1, 2).Sig()})
		}
		c.Itfs = append(c.Itfs, itf)
	}
	if len(pool) > 0 && rapid.IntRange(0, 3).Draw(t, "legacy") == 0 {
		// two revisions of every struct of the pool under one name, used side by side
		leg := Itf{Name: "Legacy" + names.fresh(t, "legacyitf", false)}
		id := uint32(100)
		// the other revision comes first or last (which of the two the generator
		// renames depends on the order in which it meets them)
		revFirst := rapid.Bool().Draw(t, "revfirst")
		for _, st := range pool {
			rev := ref.StructOf(st.Name, append([]string{"rev"}, st.Fields...), append([]*ref.Type{ref.Scalar(ref.KInt32)}, st.Members...))
			order := []*ref.Type{st, rev, ref.ListOf(st)}
			if revFirst {
				order = []*ref.Type{rev, st, ref.ListOf(st)}
			}
			for _, ty := range order {
				leg.Methods = append(leg.Methods, Method{ID: id, Name: fmt.Sprintf("m%d", id), Params: "(" + ty.Sig() + ")", Ret: ty.Sig()})
				id++
			}
		}
		for _, itf := range c.Itfs {
			for _, m := range itf.Methods {
				leg.Methods = append(leg.Methods, Method{ID: id, Name: fmt.Sprintf("m%d", id), Params: m.Params, Ret: m.Ret})
				id++
			}
			for _, sg := range itf.Signals {
				leg.Signals = append(leg.Signals, Signal{ID: id, Name: fmt.Sprintf("s%d", id), Sig: sg.Sig})
				id++
			}
		}
		c.Legacy = &leg
	}
	return c
}

func build(c Case) map[string]object.MetaObject {
	objs := map[string]object.MetaObject{}
	for _, itf := range c.Itfs {
		mo := object.MetaObject{Description: itf.Name, Methods: map[uint32]object.MetaMethod{},
			Signals: map[uint32]object.MetaSignal{}, Properties: map[uint32]object.MetaProperty{}}
		for _, m := range itf.Methods {
			mm := object.MetaMethod{Uid: m.ID, Name: m.Name, ParametersSignature: m.Params, ReturnSignature: m.Ret}
			for _, pn := range m.ParamNames {
				mm.Parameters = append(mm.Parameters, object.MetaMethodParameter{Name: pn})
			}
			mo.Methods[m.ID] = mm
		}
		for _, s := range itf.Signals {
			mo.Signals[s.ID] = object.MetaSignal{Uid: s.ID, Name: s.Name, Signature: s.Sig}
		}
		for _, p := range itf.Props {
			mo.Properties[p.ID] = object.MetaProperty{Uid: p.ID, Name: p.Name, Signature: p.Sig}
		}
		objs[itf.Name] = mo
	}
	return objs
}

func generate(c Case) (text string, err error, panicked interface{}) {
	defer func() {
		if p := recover(); p != nil {
			panicked = p
		}
	}()
	var buf bytes.Buffer
	err = idl.GenerateIDL(&buf, c.Package, build(c))
	return buf.String(), err, nil
}

func parseIDL(text string) (metas []object.MetaObject, err error, panicked interface{}) {
	defer func() {
		if p := recover(); p != nil {
			panicked = p
		}
	}()
	metas, err = idl.ParseIDL(strings.NewReader(text))
	return
}

// structNames lists the struct names occurring in the signatures of a case.
func structInfo(c Case) (names map[string]int, containerOfStruct bool) {
	names = map[string]int{}
	visit := func(sig string) {
		ty, err := ref.ParseSig(sig)
		if err != nil {
			return
		}
		seen := map[string]bool{}
		ty.Walk(func(n *ref.Type) {
			if n.Kind == ref.KStruct && !seen[n.Name] {
				seen[n.Name] = true
			}
			if (n.Kind == ref.KList || n.Kind == ref.KMap) && n.Elem.Kind == ref.KStruct {
				containerOfStruct = true
			}
		})
		for n := range seen {
			names[n]++
		}
	}
	for _, itf := range c.Itfs {
		for _, m := range itf.Methods {
			visit("(" + m.Params + m.Ret + ")")
		}
		for _, s := range itf.Signals {
			visit(s.Sig)
		}
		for _, p := range itf.Props {
			visit(p.Sig)
		}
	}
	return
}

func kwClass(c Case) string {
	names, _ := structInfo(c)
	for n := range names {
		for _, k := range []string{"int8", "uint8", "int16", "uint16", "int32", "uint32", "int64", "uint64", "float32", "float64", "bool", "str", "obj", "any", "unknown"} {
			if strings.HasPrefix(n, k) {
				return ":struct-name-starts-with-type-keyword"
			}
		}
	}
	return ""
}

func checkCase(c Case) error {
	if c.Legacy != nil {
		// generated and parsed, not judged (a meta-object with two structs of one
		// name is outside the property): only its after-effects are of interest
		if text, err, p := generate(Case{Package: "legacy", Itfs: []Itf{*c.Legacy}}); p != nil {
			return vt.Violationf("C18:generate-panic", "GenerateIDL panicked on an object with two revisions of a struct: %v", p)
		} else if err == nil {
			if _, _, p := parseIDL(text); p != nil {
				return vt.Violationf("C18:parse-panic", "ParseIDL panicked on generated IDL: %v\n%s", p, text)
			}
		}
		vt.Label("after-legacy-object")
	}
	text, err, p := generate(c)
	if p != nil {
		return vt.Violationf("C18:generate-panic", "GenerateIDL panicked: %v", p)
	}
	if err != nil {
		return vt.Violationf("C18:generate-error", "GenerateIDL failed: %v", err)
	}
	metas, err, p := parseIDL(text)
	if p != nil {
		return vt.Violationf("C18:parse-panic", "ParseIDL panicked on generated IDL: %v\n%s", p, text)
	}
	if err != nil {
		return vt.Violationf("C18:generated-idl-rejected"+kwClass(c), "ParseIDL rejects the IDL generated from the meta-objects: %v\n%s", err, text)
	}
	byName := map[string]object.MetaObject{}
	for _, m := range metas {
		byName[m.Description] = m
	}
	if len(byName) != len(c.Itfs) {
		return vt.Violationf("C18:interface-count", "%d interfaces parsed back, %d generated\n%s", len(byName), len(c.Itfs), text)
	}
	norm := func(sig string) string { // a non-tuple signal/property signature is wrapped by design
		if !strings.HasPrefix(sig, "(") || strings.Contains(sig[strings.LastIndex(sig, ")"):], "<") {
			return "(" + sig + ")"
		}
		return sig
	}
	for _, itf := range c.Itfs {
		mo, ok := byName[itf.Name]
		if !ok {
			return vt.Violationf("C18:interface-missing", "interface %q missing after the round trip\n%s", itf.Name, text)
		}
		if len(mo.Methods) != len(itf.Methods) || len(mo.Signals) != len(itf.Signals) || len(mo.Properties) != len(itf.Props) {
			return vt.Violationf("C18:action-count", "interface %q: %d/%d/%d methods/signals/properties parsed back, %d/%d/%d generated\n%s",
				itf.Name, len(mo.Methods), len(mo.Signals), len(mo.Properties), len(itf.Methods), len(itf.Signals), len(itf.Props), text)
		}
		for _, m := range itf.Methods {
			got, ok := mo.Methods[m.ID]
			if !ok {
				return vt.Violationf("C18:method-id", "interface %q: method %q id %d missing after the round trip\n%s", itf.Name, m.Name, m.ID, text)
			}
			if got.Name != m.Name || got.Uid != m.ID {
				return vt.Violationf("C18:method-name", "interface %q: method %d is %q (uid %d), want %q\n%s", itf.Name, m.ID, got.Name, got.Uid, m.Name, text)
			}
			if got.ParametersSignature != m.Params {
				return vt.Violationf("C18:param-signature"+kwClass(c), "method %q: parameters signature %q, want %q\n%s", m.Name, got.ParametersSignature, m.Params, text)
			}
			if got.ReturnSignature != m.Ret {
				return vt.Violationf("C18:return-signature"+kwClass(c), "method %q: return signature %q, want %q\n%s", m.Name, got.ReturnSignature, m.Ret, text)
			}
		}
		for _, s := range itf.Signals {
			got, ok := mo.Signals[s.ID]
			if !ok || got.Name != s.Name || got.Uid != s.ID {
				return vt.Violationf("C18:signal-id", "interface %q: signal %q id %d: got %+v\n%s", itf.Name, s.Name, s.ID, got, text)
			}
			if got.Signature != s.Sig && got.Signature != norm(s.Sig) {
				return vt.Violationf("C18:signal-signature"+kwClass(c), "signal %q: signature %q, want %q\n%s", s.Name, got.Signature, s.Sig, text)
			}
		}
		for _, s := range itf.Props {
			got, ok := mo.Properties[s.ID]
			if !ok || got.Name != s.Name || got.Uid != s.ID {
				return vt.Violationf("C18:property-id", "interface %q: property %q id %d: got %+v\n%s", itf.Name, s.Name, s.ID, got, text)
			}
			if got.Signature != s.Sig && got.Signature != norm(s.Sig) {
				return vt.Violationf("C18:property-signature"+kwClass(c), "property %q: signature %q, want %q\n%s", s.Name, got.Signature, s.Sig, text)
			}
		}
	}
	names, container := structInfo(c)
	shared := false
	for _, n := range names {
		if n >= 2 {
			shared = true
		}
	}
	nontrivial := shared || container || len(c.Itfs) >= 2
	labels := []string{fmt.Sprintf("interfaces=%d", len(c.Itfs)), fmt.Sprintf("structs=%d", len(names))}
	if shared {
		labels = append(labels, "struct-shared-by-actions")
	}
	if container {
		labels = append(labels, "container-of-struct")
	}
	if kwClass(c) != "" {
		labels = append(labels, "struct-name-starts-with-type-keyword")
	}
	if strings.Contains(text, ">\n") && strings.Contains(text, "struct ") && strings.Contains(text, "<") {
		labels = append(labels, "maybe-template-name")
	}
	key, _ := json.Marshal(c)
	if len(names) >= 8 {
		labels = append(labels, "structs>=8(chain)")
	}
	if strings.Contains(string(key), "()") {
		labels = append(labels, "contains-()")
	}
	vt.Case(nontrivial, string(key), labels...)
	if nontrivial {
		vt.Sample("idl", text)
	}
	return nil
}

// ---------------------------------------------------------------------------
// totality: arbitrary and mutated IDL text

type TextCase struct {
	Text string `json:"text"`
	Kind string `json:"kind"`
}

var idlTokens = []string{"package", "interface", "end", "struct", "enum", "fn", "sig", "prop", "->", "(", ")", ":", ",", "<", ">", "//uid:", "//",
	"Vec<", "Map<", "Tuple<", "int32", "str", "any", "obj", "bool", "unknown", "float64", "uint8", "\n", " ", "\t", "=", "1", "-5", "a", "Name", "x_1", "é", "\x00", "4294967296", "uid:99999999999", ".", "..", "-", "_"}

func genText(t *rapid.T) TextCase {
	switch rapid.IntRange(0, 3).Draw(t, "tkind") {
	case 3:
		// a well-formed body under a package clause made of name pieces and
		// separators in any order (names ending in a dot, doubled dots, ...)
		n := rapid.IntRange(0, 5).Draw(t, "pieces")
		name := ""
		for i := 0; i < n; i++ {
			name += rapid.SampledFrom([]string{"a", "qi", "v5", "B_1", ".", ".", "..", "-", "_", " ", "\t", "9", "é"}).Draw(t, "piece")
		}
		body := rapid.SampledFrom([]string{"", "\n", "\ninterface I\n\tfn f()\nend\n", "\nstruct S\n\ta: int32\nend\n"}).Draw(t, "body")
		return TextCase{Kind: "package-clause", Text: "package " + name + body}
	case 0:
		return TextCase{Kind: "random-tokens", Text: strings.Join(rapid.SliceOfN(rapid.SampledFrom(idlTokens), 0, 40).Draw(t, "tokens"), "")}
	case 1:
		return TextCase{Kind: "random-bytes", Text: string(rapid.SliceOfN(rapid.Byte(), 0, 200).Draw(t, "bytes"))}
	default:
		c := genCase(t)
		text, err, p := generate(c)
		if err != nil || p != nil {
			text = "package broken\n"
		}
		n := rapid.IntRange(1, 4).Draw(t, "edits")
		for i := 0; i < n; i++ {
			if len(text) == 0 {
				break
			}
			pos := rapid.IntRange(0, len(text)-1).Draw(t, "pos")
			tok := rapid.SampledFrom(idlTokens).Draw(t, "tok")
			switch rapid.IntRange(0, 3).Draw(t, "op") {
			case 0:
				text = text[:pos] + tok + text[pos:]
			case 1:
				end := pos + rapid.IntRange(1, 8).Draw(t, "dellen")
				if end > len(text) {
					end = len(text)
				}
				text = text[:pos] + text[end:]
			case 2:
				end := pos + rapid.IntRange(1, 20).Draw(t, "duplen")
				if end > len(text) {
					end = len(text)
				}
				text = text[:end] + text[pos:end] + text[end:]
			default:
				text = text[:pos] + tok + text[pos+1:]
			}
		}
		return TextCase{Kind: "mutated-valid", Text: text}
	}
}

func checkText(c TextCase) error {
	var pkg *idl.PackageDeclaration
	var err error
	var panicked interface{}
	func() {
		defer func() {
			if p := recover(); p != nil {
				panicked = p
			}
		}()
		pkg, err = idl.ParsePackage([]byte(c.Text))
	}()
	if panicked != nil {
		return vt.Violationf("C18:parser-panic", "ParsePackage panicked: %v on %q", panicked, c.Text)
	}
	if pkg == nil && err == nil {
		return vt.Violationf("C18:parser-nil", "ParsePackage returned neither a package nor an error on %q", c.Text)
	}
	_, err2, p2 := parseIDL(c.Text)
	if p2 != nil {
		return vt.Violationf("C18:parser-panic", "ParseIDL panicked: %v on %q", p2, c.Text)
	}
	_ = err2
	accepted := err == nil
	labels := []string{"text=" + c.Kind}
	if accepted {
		labels = append(labels, "text-accepted")
	}
	vt.Case(accepted || c.Kind == "mutated-valid", c.Text, labels...)
	return nil
}

func sortedKeys(m map[string]int) []string {
	ks := make([]string, 0, len(m))
	for k := range m {
		ks = append(ks, k)
	}
	sort.Strings(ks)
	return ks
}

func TestRoundTrip(t *testing.T) { vt.Run(t, prop, "TestRoundTrip", genCase, checkCase) }
func TestTotal(t *testing.T)     { vt.Run(t, prop, "TestTotal", genText, checkText) }

func TestReplay(t *testing.T) {
	vt.Replay(t, map[string]func(json.RawMessage) error{"TestRoundTrip": vt.Decode(checkCase), "TestTotal": vt.Decode(checkText)})
}
