package c18idl

import (
	"os"
	"testing"
)

// FuzzParsePackage (thorough tier): the totality clause of C18 under coverage
// guidance: arbitrary text yields a package or an error, never a panic or a
// crash.
func FuzzParsePackage(f *testing.F) {
	for _, p := range []string{"/repo/bus/logger/logger.idl", "/repo/bus/directory/directory.idl", "/repo/examples/space/space.qi.idl", "/repo/examples/pong/ping.qi.idl"} {
		if b, err := os.ReadFile(p); err == nil {
			f.Add(string(b))
		}
	}
	f.Add("package p\nstruct A\n a: A\nend\ninterface I\n fn f(a: A) -> Vec<A>\nend\n")
	f.Add("package p\nenum E\n a = 1\nend\n")
	f.Fuzz(func(t *testing.T, text string) {
		if len(text) > 1<<14 {
			return
		}
		if err := checkText(TextCase{Kind: "fuzz", Text: text}); err != nil {
			t.Fatal(err)
		}
	})
}
