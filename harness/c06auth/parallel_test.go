package c06auth

// Connections served in parallel: while clients which presented accepted
// credentials call a service as fast as they can, connections which presented
// nothing talk to the authentication service (the one service they may reach)
// with frames shaped like calls to that other service. Whatever the server
// shares between the goroutines which serve the connections, nothing an
// unauthenticated connection sent is delivered to the service, and the
// authenticated callers get their own answers. Authenticating one connection
// grants nothing to another.

import (
	"fmt"
	"strings"
	"sync"
	"testing"
	"time"

	"github.com/lugu/qiloop/bus"
	"pgregory.net/rapid"
	"verif/harness/netkit"
	"verif/harness/vt"
)

type ParallelCase struct {
	Authed   int  `json:"authed"`   // connections which authenticated, calling the service in a loop
	Intruder int  `json:"intruder"` // connections which did not
	Rounds   int  `json:"rounds"`   // messages per connection
	Posts    bool `json:"posts"`    // the intruders send posts instead of calls
	// Target: what the intruders address: "zero" (the authentication service,
	// with the object and action of the other service's method) or "service"
	// (the service itself: refused, connection closed; they come back)
	Target string `json:"target"`
}

func genParallel(t *rapid.T) ParallelCase {
	return ParallelCase{
		Authed:   rapid.IntRange(1, 3).Draw(t, "authed"),
		Intruder: rapid.IntRange(1, 6).Draw(t, "intruder"),
		Rounds:   rapid.SampledFrom([]int{50, 200, 600}).Draw(t, "rounds"),
		Posts:    rapid.Bool().Draw(t, "posts"),
		Target:   rapid.SampledFrom([]string{"zero", "zero", "service"}).Draw(t, "target"),
	}
}

func checkParallel(c ParallelCase) error {
	vt.Journal(prop, "TestParallel", "C06:process-died", c)
	defer vt.JournalDone(prop, "TestParallel")
	env, err := netkit.StartServerOn("unix", bus.Dictionary(map[string]string{"u": "t"}))
	if err != nil {
		return vt.Violationf("C06:setup", "server: %v", err)
	}
	defer env.Close()
	svc, _, err := env.AddPong("Svc")
	if err != nil {
		return vt.Violationf("C06:setup", "service: %v", err)
	}
	sid := svc.ServiceID()
	var wg sync.WaitGroup
	errs := make(chan error, c.Authed+c.Intruder)
	start := make(chan struct{})
	for a := 0; a < c.Authed; a++ {
		raw, err := netkit.Dial(env.Addr)
		if err != nil || !raw.Authenticate("u", "t", 10*time.Second) {
			return vt.Violationf("C06:setup", "authenticated client: %v", err)
		}
		defer raw.Close()
		wg.Add(1)
		go func(a int, raw *netkit.RawClient) {
			defer wg.Done()
			<-start
			for k := 0; k < c.Rounds; k++ {
				tag := fmt.Sprintf("member-%d-%d", a, k)
				f, ok := raw.CallWait(sid, 1, 100, netkit.StringPayload(tag), 10*time.Second)
				if !ok || f.Type != netkit.Reply {
					errs <- vt.Violationf("C06:authenticated-call-failed", "an authenticated connection's call %s was not answered with a reply: %v", tag, f)
					return
				}
				if s, ok := netkit.DecodeString(f.Payload); !ok || s != "r:"+tag {
					errs <- vt.Violationf("C06:authenticated-call-failed", "an authenticated connection's call %s was answered %q", tag, s)
					return
				}
			}
		}(a, raw)
	}
	for u := 0; u < c.Intruder; u++ {
		wg.Add(1)
		go func(u int) {
			defer wg.Done()
			<-start
			var raw *netkit.RawClient
			defer func() {
				if raw != nil {
					raw.Close()
				}
			}()
			for k := 0; k < c.Rounds; k++ {
				if raw == nil || raw.EOF() {
					if raw != nil {
						raw.Close()
					}
					var err error
					if raw, err = netkit.Dial(env.Addr); err != nil {
						return
					}
				}
				tag := fmt.Sprintf("intruder-%d-%d", u, k)
				typ, action, target := uint8(netkit.Call), uint32(100), uint32(0)
				if c.Posts {
					typ, action = netkit.Post, 101
				}
				if c.Target == "service" {
					target = sid
				}
				id := raw.NextID()
				from := len(raw.Frames())
				raw.Send(netkit.Frame{Type: typ, ID: id, Service: target, Object: 1, Action: action, Payload: netkit.StringPayload(tag)})
				if typ == netkit.Call {
					raw.WaitFrame(from, func(f netkit.Frame) bool { return f.ID == id }, 200*time.Millisecond)
				}
			}
		}(u)
	}
	close(start)
	done := make(chan struct{})
	go func() { wg.Wait(); close(done) }()
	select {
	case <-done:
	case <-time.After(120 * time.Second):
		return vt.Violationf("C06:hang", "parallel connections did not finish within two minutes\n%s", vt.BlockedInLibrary())
	}
	select {
	case err := <-errs:
		return err
	default:
	}
	// a barrier through the object's mailbox, then the journal
	local := env.Server.Client()
	if _, err := local.Call(nil, sid, 1, 100, netkit.StringPayload("barrier")); err != nil {
		return vt.Violationf("C06:setup", "barrier: %v", err)
	}
	members := 0
	for _, e := range env.Journal.Snapshot() {
		switch {
		case strings.HasPrefix(e.Arg, "intruder-"):
			return vt.Violationf("C06:delivered-without-authentication", "the service ran %s(%q), sent by a connection which never authenticated, while %d authenticated connections were being served in parallel", e.Method, e.Arg, c.Authed)
		case strings.HasPrefix(e.Arg, "member-"):
			members++
		}
	}
	if members != c.Authed*c.Rounds {
		return vt.Violationf("C06:authenticated-call-failed", "the service ran %d of the %d calls of the authenticated connections", members, c.Authed*c.Rounds)
	}
	vt.Case(true, fmt.Sprintf("parallel%+v", c), "mode=parallel", "intruders-address="+c.Target)
	return nil
}

func TestParallel(t *testing.T) { vt.Run(t, prop, "TestParallel", genParallel, checkParallel) }
