// Package c06auth decides C06: only connections that presented accepted
// credentials reach any service.
package c06auth

import (
	"encoding/json"
	"fmt"
	"io"
	"log"
	"strings"
	"testing"
	"time"

	"github.com/lugu/qiloop/bus"
	"pgregory.net/rapid"
	"verif/harness/netkit"
	"verif/harness/ref"
	"verif/harness/vt"
)

const prop = "C06"

func TestMain(m *testing.M) {
	log.SetOutput(io.Discard)
	vt.Main(m)
}

// Cred describes a crafted capability map.
type Cred struct {
	User     string `json:"user"`   // right | wrong | absent | int | other
	Token    string `json:"token"`  // right | wrong | absent | int
	Forged   int    `json:"forged"` // 0: no __qi_auth_state entry; else the forged state value
	ForgeInt bool   `json:"forge_int"`
	Extra    int    `json:"extra"`
	// Near: which near miss the kind "near" stands for (nearMiss)
	Near int `json:"near,omitempty"`
}

// nearMiss alters an accepted credential so little that a lenient comparison
// (trimmed, case folded, cut at a NUL, by prefix) would still take it.
func nearMiss(s string, how int) string {
	switch how % 12 {
	case 0:
		return s + " "
	case 1:
		return " " + s
	case 2:
		return s + "\n"
	case 3:
		return "\t" + s
	case 4:
		return s + "\r\n"
	case 5:
		return s + "\x00"
	case 6:
		return strings.ToUpper(s)
	case 7:
		return s + "\x00x"
	case 8:
		return s + s
	case 9:
		return " " + s + " "
	case 10:
		return s[:len(s)-1]
	}
	return strings.ToUpper(s[:1]) + s[1:]
}

// Op is one step of the script.
type Op struct {
	Conn    int    `json:"conn"`
	Kind    string `json:"kind"` // frame | auth | close
	Type    uint8  `json:"type"`
	Service string `json:"service"` // zero | directory | probe | random
	Object  uint32 `json:"object"`
	Action  uint32 `json:"action"`
	Payload string `json:"payload"` // empty | random | tag | capmap
	Cred    Cred   `json:"cred"`
	Rand    []byte `json:"rand,omitempty"`
}

type Case struct {
	// Transport the server listens on: unix (default) | tcp | pipe
	Transport string `json:"transport,omitempty"`
	Auth      string `json:"auth"` // dict | no
	Conns int    `json:"conns"`
	Ops   []Op   `json:"ops"`
}

func genCred(t *rapid.T) Cred {
	return Cred{
		User:     rapid.SampledFrom([]string{"right", "right", "right", "wrong", "absent", "int", "other", "raw-right", "bytes-right", "near"}).Draw(t, "user"),
		Token:    rapid.SampledFrom([]string{"right", "right", "right", "wrong", "absent", "int", "raw-right", "bytes-right", "near"}).Draw(t, "token"),
		Near:     rapid.IntRange(0, 11).Draw(t, "near"),
		Forged:   rapid.SampledFrom([]int{0, 0, 3, 3, 2, 1}).Draw(t, "forged"),
		ForgeInt: rapid.Bool().Draw(t, "forgeint"),
		Extra:    rapid.SampledFrom([]int{0, 0, 1, 5, 40}).Draw(t, "extra"),
	}
}

func genCase(t *rapid.T) Case {
	c := Case{Auth: rapid.SampledFrom([]string{"dict", "dict", "no"}).Draw(t, "auth"), Conns: rapid.IntRange(1, 3).Draw(t, "conns")}
	c.Transport = rapid.SampledFrom([]string{"unix", "unix", "tcp", "pipe", "pipe"}).Draw(t, "transport")
	n := rapid.IntRange(2, 18).Draw(t, "n")
	for i := 0; i < n; i++ {
		op := Op{Conn: rapid.IntRange(0, c.Conns-1).Draw(t, "conn")}
		op.Kind = rapid.SampledFrom([]string{"frame", "frame", "frame", "frame", "auth", "auth", "close", "goodauth", "probecall", "probecall", "shiftedauth", "vanishauth"}).Draw(t, "kind")
		op.Type = rapid.OneOf(rapid.Uint8Range(1, 8), rapid.Uint8Range(1, 8), rapid.Uint8Range(1, 8), rapid.Uint8()).Draw(t, "type")
		op.Service = rapid.SampledFrom([]string{"zero", "directory", "probe", "probe", "probe", "random"}).Draw(t, "service")
		op.Object = rapid.SampledFrom([]uint32{1, 1, 0, 2, 0xffffffff}).Draw(t, "object")
		op.Action = rapid.SampledFrom([]uint32{100, 100, 101, 8, 0, 2, 5, 9999}).Draw(t, "action")
		op.Payload = rapid.SampledFrom([]string{"tag", "tag", "empty", "random", "capmap"}).Draw(t, "payload")
		if op.Payload == "random" {
			op.Rand = rapid.SliceOfN(rapid.Byte(), 0, 40).Draw(t, "rand")
		}
		if op.Kind == "auth" || op.Payload == "capmap" {
			op.Cred = genCred(t)
		}
		switch op.Kind {
		case "goodauth":
			op.Kind = "auth"
			op.Cred = Cred{User: "right", Token: "right", Forged: rapid.SampledFrom([]int{0, 1, 3}).Draw(t, "gforged")}
		case "shiftedauth":
			// an accepted pair with the boundary between user and token moved:
			// the same characters, another user, another token
			op.Kind = "auth"
			op.Cred = Cred{User: "shifted", Token: "shifted"}
			if rapid.Bool().Draw(t, "allintoken") {
				op.Cred = Cred{User: "empty", Token: "both"}
			}
		case "probecall":
			op.Kind, op.Type, op.Service, op.Object, op.Action, op.Payload = "frame", 1, "probe", 1, 100, "tag"
			if rapid.IntRange(0, 3).Draw(t, "aspost") == 0 {
				op.Type, op.Action = 4, 101
			}
		}
		c.Ops = append(c.Ops, op)
	}
	return c
}

func userOf(conn int) string { return fmt.Sprintf("user%d", conn) }
func passOf(conn int) string { return fmt.Sprintf("pass%d", conn) }

// capmap builds the crafted map and says which user/token pair (if both are
// strings) it carries.
func capmap(c Cred, conn int) (payload []byte, user, token string, typed bool) {
	entries := map[string]ref.Dyn{"ClientServerSocket": {T: ref.Scalar(ref.KBool), V: true}}
	typed = true
	switch c.User {
	case "right":
		user = userOf(conn)
		entries["auth_user"] = netkit.Str(user)
	case "other":
		user = userOf(conn + 1)
		entries["auth_user"] = netkit.Str(user)
	case "wrong":
		user = "mallory"
		entries["auth_user"] = netkit.Str(user)
	case "shifted":
		user = userOf(conn) + passOf(conn)[:1]
		entries["auth_user"] = netkit.Str(user)
	case "near":
		user = nearMiss(userOf(conn), c.Near)
		entries["auth_user"] = netkit.Str(user)
	case "empty":
		user = ""
		entries["auth_user"] = netkit.Str(user)
	case "int":
		entries["auth_user"] = ref.Dyn{T: ref.Scalar(ref.KInt32), V: int32(7)}
		typed = false
	case "raw-right", "bytes-right":
		// not a string, but a value which is laid out like the right string
		entries["auth_user"] = stringLike(c.User, userOf(conn))
		typed = false
	}
	switch c.Token {
	case "right":
		token = passOf(conn)
		entries["auth_token"] = netkit.Str(token)
	case "wrong":
		token = "letmein"
		entries["auth_token"] = netkit.Str(token)
	case "shifted":
		token = passOf(conn)[1:]
		entries["auth_token"] = netkit.Str(token)
	case "near":
		token = nearMiss(passOf(conn), c.Near)
		entries["auth_token"] = netkit.Str(token)
	case "both":
		token = userOf(conn) + passOf(conn)
		entries["auth_token"] = netkit.Str(token)
	case "int":
		entries["auth_token"] = ref.Dyn{T: ref.Scalar(ref.KInt32), V: int32(7)}
		typed = false
	case "raw-right", "bytes-right":
		entries["auth_token"] = stringLike(c.Token, passOf(conn))
		typed = false
	}
	if c.Forged != 0 {
		if c.ForgeInt {
			entries["__qi_auth_state"] = ref.Dyn{T: ref.Scalar(ref.KInt32), V: int32(c.Forged)}
		} else {
			entries["__qi_auth_state"] = ref.Dyn{T: ref.Scalar(ref.KUint32), V: uint32(c.Forged)}
		}
	}
	for i := 0; i < c.Extra; i++ {
		entries[fmt.Sprintf("extra%d", i)] = netkit.Str("x")
	}
	return netkit.CapMap(entries), user, token, typed
}

// stringLike builds a dynamic value which is not a string but whose content
// is serialized exactly like the string s: a raw buffer, or a list of int8.
func stringLike(kind, s string) ref.Dyn {
	if kind == "raw-right" {
		return ref.Dyn{T: ref.Scalar(ref.KRaw), V: []byte(s)}
	}
	l := ref.List{}
	for _, b := range []byte(s) {
		l = append(l, int8(b))
	}
	return ref.Dyn{T: ref.ListOf(ref.Scalar(ref.KInt8)), V: l}
}

// gated is an authenticator which knows one more user, "slow": the check of
// its credentials (which are right) lasts until the harness lets it end.
type gated struct {
	inner   bus.Authenticator
	entered chan struct{}
	release chan struct{}
	left    chan struct{}
}

func (g *gated) Authenticate(user, token string) bool {
	if user != "slow" {
		return g.inner.Authenticate(user, token)
	}
	g.entered <- struct{}{}
	<-g.release
	defer func() { g.left <- struct{}{} }()
	return token == "slowpass"
}

const bound = 10 * time.Second

type connState struct {
	raw   *netkit.RawClient
	state string // fresh | authed | unknown | doomed | closed
}

func checkCase(c Case) error {
	vt.Journal(prop, "TestFirewall", "C06:process-died", c)
	defer vt.JournalDone(prop, "TestFirewall")
	users := map[string]string{}
	for i := 0; i < 4; i++ {
		users[userOf(i)] = passOf(i)
	}
	var auth bus.Authenticator = bus.Dictionary(users)
	accept := func(user, token string, typed bool) bool {
		if c.Auth == "no" || !typed {
			return false
		}
		p, ok := users[user]
		return ok && p == token
	}
	if c.Auth == "no" {
		auth = bus.No{}
	}
	gate := &gated{inner: auth, entered: make(chan struct{}, 8), release: make(chan struct{}), left: make(chan struct{}, 8)}
	if c.Auth != "no" {
		auth = gate
	}
	transport := c.Transport
	if transport == "" {
		transport = "unix"
	}
	env, err := netkit.StartServerOn(transport, auth)
	if err != nil {
		if transport == "tcp" {
			vt.Note("server on %s: %v", transport, err)
			vt.Case(false, "unavailable", "transport-unavailable="+transport)
			return nil
		}
		return vt.Violationf("C06:setup", "server on %s: %v", transport, err)
	}
	vt.Label("server-transport=" + transport)
	defer env.Close()
	svc, _, err := env.AddPong("Svc")
	if err != nil {
		return vt.Violationf("C06:setup", "service: %v", err)
	}
	conns := make([]*connState, c.Conns)
	for i := range conns {
		raw, err := netkit.Dial(env.Addr)
		if err != nil {
			return vt.Violationf("C06:setup", "dial: %v", err)
		}
		defer raw.Close()
		conns[i] = &connState{raw: raw, state: "fresh"}
	}
	sendState := map[string][]string{} // hello/ping argument -> connection states when a frame carrying it was sent
	tagN := 0
	preAuthFrames, crafted, forged, wrongTyped, nonCall, delivered, vanished := 0, 0, 0, 0, 0, 0, 0
	serviceID := func(s string) uint32 {
		switch s {
		case "zero":
			return 0
		case "directory":
			return 1
		case "probe":
			return svc.ServiceID()
		}
		return 4242
	}
	for i, op := range c.Ops {
		cs := conns[op.Conn]
		if cs.state == "closed" {
			continue
		}
		if op.Kind == "close" {
			cs.raw.Close()
			cs.state = "closed"
			continue
		}
		if op.Kind == "vanishauth" {
			// the connection presents right credentials whose check takes time and
			// vanishes before the verdict; the verdict falls when other connections
			// have arrived since. It is the verdict on a connection which is gone:
			// a newcomer has presented nothing and is refused like any other.
			if c.Auth == "no" || cs.state != "fresh" {
				continue
			}
			entries := map[string]ref.Dyn{"ClientServerSocket": {T: ref.Scalar(ref.KBool), V: true}, "auth_user": netkit.Str("slow"), "auth_token": netkit.Str("slowpass")}
			if err := cs.raw.Send(netkit.Frame{Type: netkit.Call, ID: cs.raw.NextID(), Service: 0, Object: 0, Action: 8, Payload: netkit.CapMap(entries)}); err != nil {
				cs.state = "closed"
				continue
			}
			select {
			case <-gate.entered:
			case <-time.After(bound):
				return vt.Violationf("C06:auth-no-answer", "step %d: the authenticator was not consulted within %v", i, bound)
			}
			cs.raw.Close()
			cs.state = "closed"
			time.Sleep(time.Duration(5+op.Object%40) * time.Millisecond) // the server notices the loss
			var newcomers []*netkit.RawClient
			for k := 0; k < 1+int(op.Action%3); k++ {
				raw, err := netkit.Dial(env.Addr)
				if err != nil {
					return vt.Violationf("C06:setup", "dial: %v", err)
				}
				defer raw.Close()
				newcomers = append(newcomers, raw)
			}
			time.Sleep(2 * time.Millisecond) // ... and meets the newcomers
			gate.release <- struct{}{}
			<-gate.left
			time.Sleep(2 * time.Millisecond)
			for _, raw := range newcomers {
				tagN++
				tag := fmt.Sprintf("quiet:newcomer%d-%d", op.Conn, tagN)
				sendState[tag] = append(sendState[tag], "fresh")
				f := netkit.Frame{Type: netkit.Call, ID: raw.NextID(), Service: svc.ServiceID(), Object: 1, Action: 100, Payload: netkit.StringPayload(tag)}
				from := len(raw.Frames())
				if err := raw.Send(f); err != nil {
					continue
				}
				if _, _, ok := raw.WaitFrame(from, func(x netkit.Frame) bool { return x.ID == f.ID && x.Type == netkit.Error }, bound); !ok {
					return vt.Violationf("C06:no-error-reply:newcomer", "step %d: a connection which never presented credentials (it arrived while the credentials of a connection already gone were being checked) called service %d and was not answered with an error frame (frames: %v)", i, f.Service, raw.Frames()[from:])
				}
				if !raw.WaitEOF(bound) {
					return vt.Violationf("C06:not-closed:newcomer", "step %d: newcomer connection still open %v after an unauthenticated call", i, bound)
				}
			}
			preAuthFrames++
			crafted++
			vanished++
			continue
		}
		f := netkit.Frame{Type: op.Type, ID: cs.raw.NextID(), Service: serviceID(op.Service), Object: op.Object, Action: op.Action}
		isAuth := false
		var user, token string
		var typed bool
		if op.Kind == "auth" {
			f.Type, f.Service, f.Object, f.Action = netkit.Call, 0, 0, 8
			f.Payload, user, token, typed = capmap(op.Cred, op.Conn)
			isAuth = true
		} else {
			switch op.Payload {
			case "tag":
				tagN++
				tag := fmt.Sprintf("quiet:c%d-%d", op.Conn, tagN)
				f.Payload = netkit.StringPayload(tag)
			case "random":
				f.Payload = op.Rand
			case "capmap":
				f.Payload, user, token, typed = capmap(op.Cred, op.Conn)
				if f.Service == 0 && f.Action == 8 {
					isAuth = true
				}
			}
		}
		if f.Service != 0 {
			// whatever the payload is, the argument the stub would decode from it
			if v, _, err := ref.Decode(ref.Scalar(ref.KString), f.Payload); err == nil {
				sendState[v.(string)] = append(sendState[v.(string)], cs.state)
			}
		}
		if isAuth {
			crafted++
			if op.Cred.Forged != 0 {
				forged++
			}
			if !typed {
				wrongTyped++
			}
		}
		if f.Type != netkit.Call && f.Type != netkit.Post {
			nonCall++
		}
		if f.Service != 0 && cs.state == "fresh" {
			preAuthFrames++
		}
		from := len(cs.raw.Frames())
		if err := cs.raw.Send(f); err != nil {
			cs.state = "closed"
			continue
		}
		switch {
		case f.Type == 0 || f.Type > 8:
			// not a message of the protocol: the server drops the connection
			// without a word; only non-delivery is judged from here on
			if cs.state == "fresh" {
				cs.state = "doomed"
			} else {
				cs.state = "closed"
			}
		case isAuth && f.Type == netkit.Call && f.Object == 0:
			r, _, ok := cs.raw.WaitFrame(from, func(x netkit.Frame) bool { return x.ID == f.ID && (x.Type == netkit.Reply || x.Type == netkit.Error) }, bound)
			if !ok {
				if cs.raw.EOF() {
					cs.state = "closed"
					continue
				}
				return vt.Violationf("C06:auth-no-answer", "step %d: authenticate call got no answer within %v", i, bound)
			}
			done := r.Type == netkit.Reply && netkit.AuthDone(r.Payload)
			ok2 := accept(user, token, typed)
			if done && !ok2 {
				return vt.Violationf("C06:bad-credentials-accepted", "step %d: authenticate with user=%q token=%q typed=%v forged=%d was answered with state done (authenticator %s)", i, user, token, typed, op.Cred.Forged, c.Auth)
			}
			if done && ok2 && cs.state != "doomed" {
				cs.state = "authed"
			}
		case isAuth:
			// an authenticate request sent with another message type or object:
			// if its credentials are acceptable we do not know whether the server
			// honoured it, so nothing is judged on this connection afterwards
			if accept(user, token, typed) && cs.state == "fresh" {
				cs.state = "unknown"
			}
			time.Sleep(200 * time.Microsecond)
		case f.Service != 0 && cs.state == "fresh" && (f.Type == netkit.Call || f.Type == netkit.Post):
			// answered with an error carrying the same id, then closed
			if _, _, ok := cs.raw.WaitFrame(from, func(x netkit.Frame) bool { return x.ID == f.ID && x.Type == netkit.Error }, bound); !ok {
				return vt.Violationf("C06:no-error-reply", "step %d: unauthenticated %v to service %d was not answered with an error frame (frames: %v)", i, f, f.Service, cs.raw.Frames()[from:])
			}
			if !cs.raw.WaitEOF(bound) {
				return vt.Violationf("C06:not-closed", "step %d: connection still open %v after an unauthenticated %v", i, bound, f)
			}
			cs.state = "closed"
		case f.Service != 0 && cs.state == "fresh" && (f.Type == netkit.Capability || f.Type == netkit.Cancel):
			cs.state = "doomed" // the server may close it; only non-delivery is judged from here on
		case cs.state == "authed" && f.Type == netkit.Call && op.Service == "probe" && op.Object == 1 && op.Action == 100 && op.Payload == "tag":
			// an authenticated connection does reach the service
			r, _, ok := cs.raw.WaitFrame(from, func(x netkit.Frame) bool { return x.ID == f.ID && (x.Type == netkit.Reply || x.Type == netkit.Error) }, bound)
			if !ok || r.Type != netkit.Reply {
				return vt.Violationf("C06:authenticated-refused", "step %d: authenticated call was not answered with a reply: %v", i, r)
			}
			delivered++
		}
	}
	// barrier through the server's own local client: every frame delivered
	// earlier to the probe object has been processed once this returns
	local := env.Server.Client()
	if _, err := local.Call(nil, svc.ServiceID(), 1, 100, netkit.StringPayload("barrier")); err != nil {
		return vt.Violationf("C06:setup", "barrier: %v", err)
	}
	time.Sleep(500 * time.Microsecond)
	local.Call(nil, svc.ServiceID(), 1, 100, netkit.StringPayload("barrier"))
	for _, e := range env.Journal.Snapshot() {
		if e.Arg == "barrier" {
			continue
		}
		states, ok := sendState[e.Arg]
		if !ok {
			return vt.Violationf("C06:unknown-delivery", "the probe service ran %s(%q), which no connection sent", e.Method, e.Arg)
		}
		allowed := false
		for _, st := range states {
			if st == "authed" || st == "unknown" {
				allowed = true
			}
		}
		if !allowed {
			return vt.Violationf("C06:delivered-without-authentication", "the probe service ran %s(%q) sent only by connections in states %v (authenticator %s)", e.Method, e.Arg, states, c.Auth)
		}
	}
	nontrivial := preAuthFrames > 0 && crafted > 0
	labels := []string{"auth=" + c.Auth, fmt.Sprintf("conns=%d", c.Conns)}
	if forged > 0 {
		labels = append(labels, "forged-state")
	}
	if wrongTyped > 0 {
		labels = append(labels, "wrong-typed-credential")
	}
	if nonCall > 0 {
		labels = append(labels, "non-call-type")
	}
	if delivered > 0 {
		labels = append(labels, "authenticated-delivery")
	}
	if vanished > 0 {
		labels = append(labels, "vanished-during-credential-check")
	}
	key, _ := json.Marshal(c)
	vt.Case(nontrivial, string(key), labels...)
	if nontrivial {
		vt.Sample("script", c)
	}
	return nil
}

func TestFirewall(t *testing.T) { vt.Run(t, prop, "TestFirewall", genCase, checkCase) }

func TestReplay(t *testing.T) {
	vt.Replay(t, map[string]func(json.RawMessage) error{"TestFirewall": vt.Decode(checkCase), "TestParallel": vt.Decode(checkParallel)})
}
