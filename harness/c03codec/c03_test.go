// Package c03codec decides C03: the reflection encoder, the signature-driven
// reader and the reflection decoder agree with each other and with the
// documented serialization.
package c03codec

import (
	"bytes"
	"encoding/hex"
	"encoding/json"
	"errors"
	"fmt"
	"reflect"
	"sort"
	"testing"
	"time"

	"github.com/lugu/qiloop/meta/signature"
	"github.com/lugu/qiloop/type/encoding"
	"pgregory.net/rapid"
	"verif/harness/bridge"
	"verif/harness/gen"
	"verif/harness/hio"
	"verif/harness/ref"
	"verif/harness/vt"
)

const prop = "C03"

func TestMain(m *testing.M) {
	vt.Watchdog = 30 * time.Second
	vt.Main(m)
}

// Case is a type (signature) and a value of it (reference encoding).
type Case struct {
	Sig     string `json:"sig"`
	Hex     string `json:"hex"`
	Trailer string `json:"trailer"`
	Chunks  []int  `json:"chunks"`
	Desc    string `json:"desc"`
	// FailAt >= 0: before anything else the same value is encoded once into a
	// writer which fails after FailAt bytes. Whatever that failed attempt
	// leaves behind (buffers, pools) must not show in the encodings that follow.
	FailAt int `json:"fail_at"`
	// Source: the concrete type of the reader the decoders are given (hio.SourceKinds)
	Source string `json:"source,omitempty"`
	// EOFWith: the datum is the last thing in the stream (no trailer) and the
	// reader hands out its last bytes together with io.EOF, as io.Reader allows
	EOFWith bool `json:"eofwith,omitempty"`
}

// failAfter accepts n bytes, then fails.
type failAfter struct{ n int }

func (f *failAfter) Write(p []byte) (int, error) {
	if len(p) <= f.n {
		f.n -= len(p)
		return len(p), nil
	}
	n := f.n
	f.n = 0
	return n, errors.New("harness: writer failed")
}

func typeOpts() gen.TypeOpts {
	return gen.TypeOpts{Depth: 3, Width: 4,
		Leaves:  append(append([]ref.Kind{}, gen.AllScalars...), ref.KValue, ref.KInt8, ref.KUint8, ref.KInt16, ref.KUint16),
		MapKeys: gen.KeyScalars, Structs: true, Tuples: true, Maps: true, Lists: true, Template: false, ZeroMem: true, CompositeKeys: true, Wide: true}
}

func genCase(t *rapid.T) Case {
	ty := gen.DrawType(t, typeOpts())
	vo := gen.DefaultValueOpts()
	vo.DynDepth = 1
	// floats of any bit pattern, signalling NaNs included (the bridge between
	// abstract values and Go values copies float32 bits, see bridge.FromGo)
	vo.AnyBits = true
	v := gen.DrawValue(t, ty, vo)
	desc := ref.Render(v)
	if len(desc) > 300 {
		desc = desc[:300] + "..."
	}
	c := Case{Sig: ty.Sig(), Hex: hex.EncodeToString(ref.Encode(ty, v)),
		Trailer: hex.EncodeToString(rapid.SliceOfN(rapid.Byte(), 0, 6).Draw(t, "trailer")),
		Chunks:  gen.FragPlan().Draw(t, "plan").Chunks, Desc: desc, FailAt: -1,
		Source: rapid.SampledFrom(hio.SourceKinds).Draw(t, "source")}
	if n := len(c.Hex) / 2; n > 0 && rapid.IntRange(0, 3).Draw(t, "failfirst") == 0 {
		c.FailAt = rapid.IntRange(0, n-1).Draw(t, "failat")
	}
	if rapid.IntRange(0, 4).Draw(t, "eofwith") == 0 {
		c.EOFWith, c.Trailer, c.Source = true, "", "frag"
	}
	return c
}

func scalarClass(ty *ref.Type) string {
	var ks []string
	seen := map[string]bool{}
	ty.Walk(func(n *ref.Type) {
		if n.IsScalar() && !seen[n.Sig()] {
			seen[n.Sig()] = true
			ks = append(ks, n.Sig())
		}
	})
	sort.Strings(ks)
	return fmt.Sprint(ks)
}

// smallKinds lists which 8/16 bit kinds occur (the fingerprint of the class).
func smallKinds(ty *ref.Type) string {
	s := ""
	for _, k := range []ref.Kind{ref.KInt8, ref.KUint8, ref.KInt16, ref.KUint16} {
		if ty.Contains(k) {
			s += ref.Scalar(k).Sig()
		}
	}
	return s
}

func classFor(ty *ref.Type, what string) string {
	cls := "C03:" + what
	if ty.Contains(ref.KInt8, ref.KUint8) {
		cls += ":int8|uint8"
	} else if ty.Contains(ref.KValue) {
		cls += ":m"
	}
	return cls
}

func safely(f func() error) (err error, panicked interface{}) {
	defer func() {
		if r := recover(); r != nil {
			panicked = r
		}
	}()
	return f(), nil
}

func checkCase(c Case) error {
	ty, err := ref.ParseSig(c.Sig)
	if err != nil {
		return vt.Violationf("C03:bad-case", "sig: %v", err)
	}
	refBytes, _ := hex.DecodeString(c.Hex)
	trailer, _ := hex.DecodeString(c.Trailer)
	v, n, err := ref.Decode(ty, refBytes)
	if err != nil || n != len(refBytes) {
		return vt.Violationf("C03:bad-case", "reference decode: %v", err)
	}
	gv := bridge.ToGo(ty, v, nil)

	if c.FailAt >= 0 {
		// a failed attempt first; its outcome is not judged (an error is expected)
		safely(func() error {
			return encoding.NewEncoder(encoding.DefaultCap(), &failAfter{n: c.FailAt}).Encode(gv.Interface())
		})
		vt.Label("after-a-failed-encode")
	}

	// (a) reflection encoder against the documented layout
	var buf bytes.Buffer
	err, p := safely(func() error { return encoding.NewEncoder(encoding.DefaultCap(), &buf).Encode(gv.Interface()) })
	if p != nil {
		return vt.Violationf(classFor(ty, "encoder-panic"), "Encode(%s %s) panicked: %v", c.Sig, c.Desc, p)
	}
	if err != nil {
		return vt.Violationf(classFor(ty, "encoder-error"), "Encode(%s %s) failed: %v", c.Sig, c.Desc, err)
	}
	enc := buf.Bytes()
	if !ty.Contains(ref.KMap) {
		// a plain io.Writer is given the same bytes as the bytes.Buffer
		// (maps: the order of the entries is Go's and differs between two encodings)
		rec := &hio.RecWriter{}
		err, p := safely(func() error { return encoding.NewEncoder(encoding.DefaultCap(), rec).Encode(gv.Interface()) })
		if p != nil || err != nil || !bytes.Equal(rec.Bytes(), enc) {
			return vt.Violationf(classFor(ty, "encoder-layout:plain-writer"), "Encode(%s %s) into a plain io.Writer: %v %v\n got  %x\n want %x", c.Sig, c.Desc, err, p, rec.Bytes(), enc)
		}
	}
	if len(enc) != len(refBytes) {
		return vt.Violationf(classFor(ty, "encoder-length"), "Encode(%s %s) produced %d bytes, the documented serialization has %d\n got  %x\n want %x", c.Sig, c.Desc, len(enc), len(refBytes), enc, refBytes)
	}
	back, n2, err := ref.Decode(ty, enc)
	if err != nil || n2 != len(enc) || !ref.Equal(back, v) {
		return vt.Violationf(classFor(ty, "encoder-layout"), "Encode(%s %s) is not the documented serialization (reference decoder: %v)\n got  %x\n want %x", c.Sig, c.Desc, err, enc, refBytes)
	}
	if !ty.Contains(ref.KMap) && !bytes.Equal(enc, refBytes) {
		return vt.Violationf(classFor(ty, "encoder-layout"), "Encode(%s %s) differs from the documented serialization\n got  %x\n want %x", c.Sig, c.Desc, enc, refBytes)
	}

	// (b) signature-driven reader returns exactly the bytes and consumes them
	st, err := signature.Parse(c.Sig)
	if err != nil {
		return vt.Violationf("C03:parse", "Parse(%q): %v", c.Sig, err)
	}
	for _, input := range [][]byte{refBytes, enc} {
		r, consumed := hio.Source(c.Source, append(append([]byte{}, input...), trailer...), c.Chunks, c.EOFWith)
		got, err := st.Reader().Read(r)
		if err != nil {
			return vt.Violationf(classFor(ty, "reader-error"), "Reader(%s).Read of a valid encoding of %s failed: %v", c.Sig, c.Desc, err)
		}
		if !bytes.Equal(got, input) {
			return vt.Violationf(classFor(ty, "reader-bytes"), "Reader(%s).Read returned different bytes\n got  %x\n want %x", c.Sig, got, input)
		}
		if consumed() != len(input) {
			return vt.Violationf(classFor(ty, "reader-consumed"), "Reader(%s).Read consumed %d of %d bytes", c.Sig, consumed(), len(input))
		}
	}

	// (c) reflection decoder recovers the value from the documented bytes,
	// (d) and from the encoder's own output
	for i, input := range [][]byte{refBytes, enc} {
		which := []string{"documented bytes", "encoder output"}[i]
		ptr := reflect.New(gv.Type())
		r, consumed := hio.Source(c.Source, append(append([]byte{}, input...), trailer...), c.Chunks, c.EOFWith)
		err, p := safely(func() error { return encoding.NewDecoder(encoding.DefaultCap(), r).Decode(ptr.Interface()) })
		if p != nil {
			return vt.Violationf(classFor(ty, "decoder-panic"), "Decode(%s) of %s panicked: %v", c.Sig, which, p)
		}
		if err != nil {
			return vt.Violationf(classFor(ty, "decoder-error"), "Decode(%s) of %s (%s) failed: %v", c.Sig, which, c.Desc, err)
		}
		got, err := bridge.FromGo(ty, ptr.Elem())
		if err != nil {
			return vt.Violationf(classFor(ty, "decoder-value"), "Decode(%s) of %s left an unusable value: %v", c.Sig, which, err)
		}
		if !ref.Equal(got, v) {
			return vt.Violationf(classFor(ty, "decoder-value"), "Decode(%s) of %s = %s, want %s", c.Sig, which, ref.Render(got), c.Desc)
		}
		if consumed() != len(input) {
			return vt.Violationf(classFor(ty, "decoder-consumed"), "Decode(%s) consumed %d of %d bytes", c.Sig, consumed(), len(input))
		}
		// once more into the destination which now holds the value (a caller
		// which reuses its variable): the same bytes give the same value
		r2, consumed2 := hio.Source(c.Source, append(append([]byte{}, input...), trailer...), c.Chunks, c.EOFWith)
		err, p = safely(func() error { return encoding.NewDecoder(encoding.DefaultCap(), r2).Decode(ptr.Interface()) })
		if p != nil || err != nil {
			return vt.Violationf(classFor(ty, "decoder-error:used-destination"), "Decode(%s) of %s (%s) into a destination which already holds that value failed: %v %v", c.Sig, which, c.Desc, err, p)
		}
		got2, err := bridge.FromGo(ty, ptr.Elem())
		if err != nil || !ref.Equal(got2, v) || consumed2() != len(input) {
			return vt.Violationf(classFor(ty, "decoder-value:used-destination"), "Decode(%s) of %s into a destination which already holds that value = %s (%v, consumed %d of %d), want %s", c.Sig, which, ref.Render(got2), err, consumed2(), len(input), c.Desc)
		}
	}

	// (e) the Go type which the LIBRARY derives from the signature (the one
	// proxies decode replies into, bus/proxy.go): decoding the documented bytes
	// into it recovers the value
	// (not for signatures with m: the library represents a dynamic value there
	// by *interface{}, which is not what the codec under test is given anywhere)
	if ty.Contains(ref.KValue) {
		return finish(c, ty)
	}
	lt, p := func() (t reflect.Type, p interface{}) {
		defer func() { p = recover() }()
		return st.Type(), nil
	}()
	if p != nil {
		return vt.Violationf(classFor(ty, "library-type-panic"), "Parse(%q).Type() panicked: %v", c.Sig, p)
	}
	lptr := reflect.New(lt)
	err, p = safely(func() error {
		return encoding.NewDecoder(encoding.DefaultCap(), bytes.NewReader(refBytes)).Decode(lptr.Interface())
	})
	if p != nil || err != nil {
		return vt.Violationf(classFor(ty, "library-type-decode"), "Decode into Parse(%q).Type() failed: %v %v", c.Sig, err, p)
	}
	var lgot interface{}
	err, p = safely(func() (e error) { lgot, e = bridge.FromGo(ty, lptr.Elem()); return })
	if p != nil || err != nil || !ref.Equal(lgot, v) {
		return vt.Violationf(classFor(ty, "library-type-decode"), "Decode into Parse(%q).Type() = %v gave %s (%v %v), want %s", c.Sig, lt, ref.Render(lgot), err, p, c.Desc)
	}

	return finish(c, ty)
}

// finish records the statistics of a case that held.
func finish(c Case, ty *ref.Type) error {
	nontrivial := ty.Depth() >= 2 || ty.Contains(ref.KInt8, ref.KUint8, ref.KInt16, ref.KUint16, ref.KMap, ref.KValue)
	labels := []string{fmt.Sprintf("depth=%d", ty.Depth())}
	for _, k := range []struct {
		k ref.Kind
		n string
	}{{ref.KList, "list"}, {ref.KMap, "map"}, {ref.KStruct, "struct"}, {ref.KTuple, "tuple"}, {ref.KValue, "m"},
		{ref.KInt8, "int8"}, {ref.KUint8, "uint8"}, {ref.KInt16, "int16"}, {ref.KUint16, "uint16"}, {ref.KFloat32, "float32"}, {ref.KFloat64, "float64"}, {ref.KBool, "bool"}, {ref.KString, "str"}} {
		if ty.Contains(k.k) {
			labels = append(labels, "has-"+k.n)
		}
	}
	if ty.IsScalar() {
		labels = append(labels, "top-level-scalar:"+c.Sig)
	}
	vt.Case(nontrivial, c.Sig+"|"+c.Hex, labels...)
	if nontrivial {
		vt.Sample("typed-value", map[string]string{"sig": c.Sig, "value": c.Desc, "hex": c.Hex})
	}
	return nil
}

func TestAgreement(t *testing.T) { vt.Run(t, prop, "TestAgreement", genCase, checkCase) }

func TestReplay(t *testing.T) {
	vt.Replay(t, map[string]func(json.RawMessage) error{"TestAgreement": vt.Decode(checkCase)})
}
