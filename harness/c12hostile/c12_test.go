// Package c12hostile decides C12: one client cannot stop a service from
// serving others.
package c12hostile

import (
	"encoding/binary"
	"encoding/hex"
	"encoding/json"
	"fmt"
	"io"
	"log"
	"testing"
	"time"

	"github.com/lugu/qiloop/bus"
	"pgregory.net/rapid"
	"verif/harness/gen"
	"verif/harness/netkit"
	"verif/harness/probe"
	"verif/harness/ref"
	"verif/harness/vt"
)

const prop = "C12"

func TestMain(m *testing.M) {
	log.SetOutput(io.Discard)
	vt.Main(m)
}

// Op is one hostile step.
type Op struct {
	Kind    string `json:"kind"` // frame | reg | flood | floodnoread | halfframe | terminate | unregister | dirinfo | regburst | multiflood | postflood
	Svc     string `json:"svc"`  // pong | bomb | dir | unknown
	Obj     int    `json:"obj"`  // 0: object 1; 1..: sacrificial object; -1: wrong id
	Action  uint32 `json:"action"`
	Type    uint8  `json:"type"`
	Payload string `json:"payload"` // hex
	PKind   string `json:"pkind"`
	N       int    `json:"n,omitempty"`
	Handler uint64 `json:"handler,omitempty"`
	Signal  uint32 `json:"signal,omitempty"`
	Unreg   bool   `json:"unreg,omitempty"`
	Target  string `json:"target,omitempty"` // unregister: pong | bomb | dir | unknown
	Rounds  int    `json:"rounds,omitempty"` // regburst: connections, one after the other
	Conns   int    `json:"conns,omitempty"`  // multiflood: concurrent connections
	Stall   int    `json:"stall,omitempty"`  // multiflood: µs the object is kept busy first
}

type Case struct {
	Ops []Op `json:"ops"`
	// Transport the server listens on: unix (default) | tcp | tcps
	Transport string `json:"transport,omitempty"`
}

const serviceInfoSig = "(sIsI[s]ss)<ServiceInfo,name,serviceId,machineId,processId,endpoints,sessionId,objectUid>"

var paramSigs = map[uint32]string{0: "(IIL)", 1: "(IIL)", 2: "(I)", 5: "(m)", 6: "(mm)", 7: "()", 8: "(IILs)", 80: "()", 81: "(b)", 82: "()", 83: "()", 84: "()", 85: "(b)",
	100: "(s)", 101: "(s)", 102: "(" + serviceInfoSig + ")", 103: "(I)", 104: "(I)", 105: "(" + serviceInfoSig + ")"}

var hostile = []uint32{0, 1, 4096, 4097, 10*1024*1024 + 1, 0x00FFFFFF, 0x03FFFFFF, 0x7FFFFFFF, 0x80000000, 0xFFFFFFFF}

func genPayload(t *rapid.T, action uint32) (string, string) {
	sig, ok := paramSigs[action]
	if !ok {
		sig = "()"
	}
	ty, _ := ref.ParseSig(sig)
	kind := rapid.SampledFrom([]string{"valid", "valid", "mutated", "mutated", "random", "empty"}).Draw(t, "pkind")
	switch kind {
	case "random":
		return hex.EncodeToString(rapid.SliceOfN(rapid.Byte(), 0, 64).Draw(t, "rand")), kind
	case "empty":
		return "", kind
	}
	var e ref.Encoder
	e.Encode(ty, gen.DrawValue(t, ty, gen.DefaultValueOpts()))
	data := e.Buf
	if kind == "mutated" && len(e.Fields) > 0 {
		f := e.Fields[rapid.IntRange(0, len(e.Fields)-1).Draw(t, "field")]
		binary.LittleEndian.PutUint32(data[f.Off:], rapid.SampledFrom(hostile).Draw(t, "hostile"))
	}
	if len(data) > 2000 {
		data = data[:2000]
	}
	return hex.EncodeToString(data), kind
}

// actions that may be sent to any object (3 = terminate is generated
// separately, aimed at sacrificial objects only)
var genericActions = []uint32{0, 1, 2, 5, 6, 7, 8, 80, 81, 82, 83, 84, 85, 100, 101, 4, 9999}
var dirActions = []uint32{100, 101, 102, 104, 105, 108, 0, 1, 2, 5, 6}

func genCase(t *rapid.T) Case {
	var c Case
	n := rapid.IntRange(2, 25).Draw(t, "n")
	c.Transport = rapid.SampledFrom([]string{"unix", "unix", "unix", "tcp", "tcps", "tcps"}).Draw(t, "transport")
	kinds := []string{"frame", "frame", "frame", "frame", "reg", "reg", "reg", "dirinfo", "flood", "halfframe", "terminate", "unregister", "regburst", "multiflood", "postflood", "strangeconn", "badauth", "badauth", "regmany", "deafsub"}
	if vt.Thorough() {
		kinds = append(kinds, "floodnoread")
	}
	for i := 0; i < n; i++ {
		op := Op{Kind: rapid.SampledFrom(kinds).Draw(t, "kind"), Type: 1}
		op.Svc = rapid.SampledFrom([]string{"pong", "pong", "bomb", "dir", "unknown"}).Draw(t, "svc")
		op.Obj = rapid.SampledFrom([]int{0, 0, 1, 2, -1}).Draw(t, "obj")
		switch op.Kind {
		case "frame":
			if op.Svc == "dir" {
				op.Action = rapid.SampledFrom(dirActions).Draw(t, "daction")
				op.Obj = rapid.SampledFrom([]int{0, 0, -1}).Draw(t, "dobj")
			} else {
				op.Action = rapid.SampledFrom(genericActions).Draw(t, "action")
			}
			if rapid.IntRange(0, 5).Draw(t, "oddtype") == 0 {
				op.Type = uint8(rapid.IntRange(1, 8).Draw(t, "type"))
			}
			op.Payload, op.PKind = genPayload(t, op.Action)
		case "reg":
			op.Svc = rapid.SampledFrom([]string{"pong", "bomb"}).Draw(t, "rsvc")
			op.Handler = uint64(rapid.IntRange(1, 3).Draw(t, "handler"))
			op.Signal = rapid.SampledFrom([]uint32{100, 101, 102, 0x56, 7}).Draw(t, "signal")
			op.Unreg = rapid.IntRange(0, 3).Draw(t, "unreg") == 0
		case "dirinfo":
			op.Svc, op.Obj = "dir", 0
			op.Action = rapid.SampledFrom([]uint32{102, 105, 104}).Draw(t, "iaction")
			op.Payload, op.PKind = genPayload(t, op.Action)
		case "flood", "floodnoread":
			op.N = rapid.SampledFrom([]int{100, 500, 2000}).Draw(t, "n")
			if vt.Thorough() {
				op.N = rapid.SampledFrom([]int{100, 1000, 10000}).Draw(t, "nt")
			}
			op.Svc = rapid.SampledFrom([]string{"pong", "bomb", "dir"}).Draw(t, "fsvc")
			op.Obj = 0
			op.Action = rapid.SampledFrom([]uint32{100, 2, 7, 101}).Draw(t, "faction")
			op.Payload, op.PKind = genPayload(t, op.Action)
		case "terminate":
			op.Svc = "pong"
			op.Obj = rapid.IntRange(1, 2).Draw(t, "sacrificial")
			op.Type = rapid.SampledFrom([]uint8{1, 1, 4}).Draw(t, "ttype")
		case "unregister":
			op.Target = rapid.SampledFrom([]string{"pong", "bomb", "unknown", "dir"}).Draw(t, "target")
		case "postflood":
			// one-way messages (no reply expected) piled on a busy object:
			// subscriptions with fresh ids, cancellations, or plain posts
			op.Svc = rapid.SampledFrom([]string{"pong", "bomb", "dir"}).Draw(t, "psvc")
			op.Obj = 0
			op.N = rapid.SampledFrom([]int{15, 40, 120}).Draw(t, "posts")
			op.Action = rapid.SampledFrom([]uint32{0, 0, 1, 101, 2}).Draw(t, "paction")
			op.Stall = rapid.SampledFrom([]int{0, 5000, 30000}).Draw(t, "pstall")
		case "strangeconn":
			op.N = rapid.IntRange(0, 11).Draw(t, "strange")
		case "regmany":
			// thousands of registrations with identifiers of their own, from a
			// connection which stays (whatever the object keeps per subscriber,
			// it keeps it for everybody)
			op.Svc = rapid.SampledFrom([]string{"dir", "dir", "bomb", "pong"}).Draw(t, "msvc")
			op.Obj = 0
			op.N = rapid.SampledFrom([]int{300, 4200, 4200}).Draw(t, "manyregs")
		case "badauth":
			// authenticate requests (the authentication service serves every
			// connection) which are refused, or whose capability map holds values
			// of unexpected types beside accepted credentials; N in a row
			op.N = rapid.SampledFrom([]int{1, 3, 9, 12, 20}).Draw(t, "auths")
			op.PKind = rapid.SampledFrom([]string{"user-not-a-string", "token-not-a-string", "no-credentials", "known-keys-of-other-types", "random", "fresh-connection"}).Draw(t, "authkind")
			op.Unreg = rapid.Bool().Draw(t, "pipelined")
		case "regburst":
			// connections which subscribe a few times, send all their
			// unregisterEvent calls in one write and vanish without reading
			op.Svc = rapid.SampledFrom([]string{"dir", "bomb", "pong"}).Draw(t, "bsvc")
			op.Obj = 0
			op.N = rapid.IntRange(1, 6).Draw(t, "regs")
			op.Rounds = rapid.SampledFrom([]int{1, 5, 20, 40}).Draw(t, "rounds")
		case "multiflood":
			// several connections call a sacrificial object which is busy and
			// has its own terminate request queued
			op.Svc = "pong"
			op.Obj = rapid.IntRange(1, 2).Draw(t, "sacrificial")
			op.Conns = rapid.IntRange(2, 8).Draw(t, "conns")
			op.N = rapid.SampledFrom([]int{5, 12, 30}).Draw(t, "percall")
			op.Stall = rapid.SampledFrom([]int{0, 2000, 20000}).Draw(t, "stall")
			op.Type = rapid.SampledFrom([]uint8{1, 1, 4}).Draw(t, "ttype")
		}
		c.Ops = append(c.Ops, op)
	}
	return c
}

const bound = 10 * time.Second

type world struct {
	env        *netkit.Env
	pongID     uint32
	bombID     uint32
	sacr       []uint32          // sacrificial pong objects
	terminated map[uint32]string // "yes": acknowledged by the server; "maybe": requested, no acknowledgement seen
	listed     map[uint32]bool   // directory model: service ids that must (not) be listed
}

func (w *world) svcID(s string) uint32 {
	switch s {
	case "pong":
		return w.pongID
	case "bomb":
		return w.bombID
	case "dir":
		return 1
	}
	return 4242
}

func (w *world) objID(op Op) uint32 {
	switch {
	case op.Obj == 0:
		return 1
	case op.Obj > 0 && op.Svc == "pong":
		return w.sacr[(op.Obj-1)%len(w.sacr)]
	case op.Obj > 0:
		return 1
	}
	return 0x7ffffff1
}

var probeHandler uint64

// probeAll checks from a fresh connection that every object the model says
// exists answers, and that the directory lists what the model lists.
func (w *world) probeAll(when string) error {
	f, err := netkit.Dial(w.env.Addr)
	if err != nil {
		return vt.Violationf("C12:cannot-connect", "%s: a fresh client cannot connect: %v", when, err)
	}
	defer f.Close()
	if !f.Authenticate("u", "t", bound) {
		return vt.Violationf("C12:cannot-authenticate", "%s: a fresh client cannot authenticate within %v", when, bound)
	}
	u32 := func(v uint32) []byte { return binary.LittleEndian.AppendUint32(nil, v) }
	type target struct {
		name     string
		svc, obj uint32
	}
	targets := []target{{"directory", 1, 1}, {"pong", w.pongID, 1}, {"bomb", w.bombID, 1}}
	for i, id := range w.sacr {
		if w.terminated[id] == "" {
			targets = append(targets, target{fmt.Sprintf("pong.sacrificial%d", i), w.pongID, id})
		}
	}
	for _, tg := range targets {
		r, ok := f.CallWait(tg.svc, tg.obj, 2, u32(tg.obj), bound)
		if !ok {
			return vt.Violationf("C12:object-unresponsive:"+tg.name, "%s: metaObject on %s (service %d object %d) got no answer within %v", when, tg.name, tg.svc, tg.obj, bound)
		}
		if r.Type != netkit.Reply {
			return vt.Violationf("C12:object-broken:"+tg.name, "%s: metaObject on %s answered with an error: %s", when, tg.name, netkit.ErrorText(r.Payload))
		}
		switch tg.name {
		case "directory":
			r, ok := f.CallWait(1, 1, 101, nil, bound)
			if !ok || r.Type != netkit.Reply {
				return vt.Violationf("C12:object-unresponsive:directory", "%s: services() failed: %v", when, r)
			}
			ty, _ := ref.ParseSig("[" + serviceInfoSig + "]")
			v, _, err := ref.Decode(ty, r.Payload)
			if err != nil {
				return vt.Violationf("C12:object-broken:directory", "%s: services() reply undecodable: %v", when, err)
			}
			got := map[uint32]bool{}
			for _, e := range v.(ref.List) {
				got[e.(ref.Tuple)[1].(uint32)] = true
			}
			for id, want := range w.listed {
				if want != got[id] {
					return vt.Violationf("C12:directory-listing", "%s: directory lists service %d = %v, expected %v", when, id, got[id], want)
				}
			}
		case "bomb":
			// a hostile setProperty may legitimately have changed the value: only an answer is required
			if _, ok := f.CallWait(tg.svc, 1, 5, ref.EncodeDyn(ref.Dyn{T: ref.Scalar(ref.KString), V: "delay"}), bound); !ok {
				return vt.Violationf("C12:object-unresponsive:bomb", "%s: property(delay) got no answer within %v", when, bound)
			}
		default:
			tag := "probe-" + when
			r, ok := f.CallWait(tg.svc, tg.obj, 100, netkit.StringPayload(tag), bound)
			if !ok {
				return vt.Violationf("C12:object-unresponsive:"+tg.name, "%s: hello on %s got no answer within %v", when, tg.name, bound)
			}
			if s, _ := netkit.DecodeString(r.Payload); r.Type != netkit.Reply || s != "r:"+tag {
				return vt.Violationf("C12:object-broken:"+tg.name, "%s: hello on %s answered %v %q", when, tg.name, r.Type, s)
			}
		}
	}
	// serving the others includes their subscriptions: the fresh client registers
	// for a signal of each main object and leaves again
	for _, sb := range []struct {
		name     string
		svc, sig uint32
	}{{"directory", 1, 106}, {"pong", w.pongID, 102}, {"bomb", w.bombID, 100}} {
		probeHandler++
		b := binary.LittleEndian.AppendUint32(nil, 1)
		b = binary.LittleEndian.AppendUint32(b, sb.sig)
		b = binary.LittleEndian.AppendUint64(b, 0x7000000000000000+probeHandler)
		r, ok := f.CallWait(sb.svc, 1, 0, b, bound)
		if !ok {
			return vt.Violationf("C12:object-unresponsive:"+sb.name, "%s: registerEvent on %s got no answer within %v", when, sb.name, bound)
		}
		if r.Type != netkit.Reply {
			return vt.Violationf("C12:subscription-refused:"+sb.name, "%s: a fresh client cannot subscribe to signal %d of %s: %s", when, sb.sig, sb.name, netkit.ErrorText(r.Payload))
		}
		f.CallWait(sb.svc, 1, 1, b, bound)
	}
	for id, state := range w.terminated {
		if state != "yes" {
			continue
		}
		r, ok := f.CallWait(w.pongID, id, 100, netkit.StringPayload("x"), bound)
		if !ok {
			return vt.Violationf("C12:terminated-object-hangs", "%s: call to terminated object %d got no answer", when, id)
		}
		if r.Type == netkit.Reply {
			return vt.Violationf("C12:terminated-object-answers", "%s: terminated object %d still answers", when, id)
		}
	}
	return nil
}

func authFrame() []byte {
	return netkit.Frame{Type: netkit.Call, ID: 3, Service: 0, Object: 0, Action: 8,
		Payload: netkit.CapMap(map[string]ref.Dyn{"auth_user": netkit.Str("u"), "auth_token": netkit.Str("t")})}.Encode()
}

func checkCase(c Case) error {
	vt.Journal(prop, "TestHostile", "C12:process-died", c)
	defer vt.JournalDone(prop, "TestHostile")
	transport := c.Transport
	if transport == "" {
		transport = "unix"
	}
	env, err := netkit.StartServerOn(transport, bus.Yes{})
	if err != nil {
		if transport != "unix" {
			// the port picked for the server was taken meanwhile
			vt.Note("server on %s: %v", transport, err)
			vt.Case(false, "unavailable", "transport-unavailable="+transport)
			return nil
		}
		return vt.Violationf("C12:setup", "server: %v", err)
	}
	defer env.Close()
	vt.Label("server-transport=" + transport)
	w := &world{env: env, terminated: map[uint32]string{}, listed: map[uint32]bool{1: true}}
	psvc, _, err := env.AddPong("P")
	if err != nil {
		return vt.Violationf("C12:setup", "pong: %v", err)
	}
	w.pongID = psvc.ServiceID()
	for i := 0; i < 2; i++ {
		id, _, err := env.AddPongObject(psvc, fmt.Sprintf("P.s%d", i))
		if err != nil {
			return vt.Violationf("C12:setup", "sacrificial: %v", err)
		}
		w.sacr = append(w.sacr, id)
	}
	_, bactor := probe.NewBomb("B", env.Journal)
	bsvc, err := env.Server.NewService("B", bactor)
	if err != nil {
		return vt.Violationf("C12:setup", "bomb: %v", err)
	}
	w.bombID = bsvc.ServiceID()
	w.listed[w.pongID], w.listed[w.bombID] = true, true

	h, err := netkit.Dial(env.Addr)
	if err != nil || !h.Authenticate("u", "t", bound) {
		return vt.Violationf("C12:setup", "hostile client: %v", err)
	}
	defer h.Close()
	malformedReached, repeatedSub, floods := 0, 0, 0
	manyDone := false
	regs := map[string]int{}
	short := 2 * time.Second
	for i, op := range c.Ops {
		payload, _ := hex.DecodeString(op.Payload)
		sid, oid := w.svcID(op.Svc), w.objID(op)
		switch op.Kind {
		case "frame", "dirinfo":
			id := h.NextID()
			from := len(h.Frames())
			h.Send(netkit.Frame{Type: op.Type, ID: id, Service: sid, Object: oid, Action: op.Action, Payload: payload})
			if op.Type == netkit.Call {
				// the hostile client reads its answer (if any) before going on
				r, _, ok := h.WaitFrame(from, func(f netkit.Frame) bool { return f.ID == id && (f.Type == netkit.Reply || f.Type == netkit.Error) }, short)
				if ok && r.Type == netkit.Error && op.PKind != "valid" {
					malformedReached++
				}
				// the directory model follows the acknowledged mutating calls
				if ok && r.Type == netkit.Reply && sid == 1 && oid == 1 && op.PKind == "valid" && op.Action == 104 && len(payload) >= 4 {
					w.listed[binary.LittleEndian.Uint32(payload)] = true
				}
			}
		case "reg":
			action := uint32(0)
			if op.Unreg {
				action = 1
			}
			key := fmt.Sprintf("%d/%d/%d", sid, oid, op.Handler)
			if !op.Unreg {
				regs[key]++
				if regs[key] > 1 {
					repeatedSub++
				}
			}
			b := binary.LittleEndian.AppendUint32(nil, oid)
			b = binary.LittleEndian.AppendUint32(b, op.Signal)
			b = binary.LittleEndian.AppendUint64(b, op.Handler)
			h.CallWait(sid, oid, action, b, short)
		case "flood":
			floods++
			for k := 0; k < op.N; k++ {
				if h.Send(netkit.Frame{Type: netkit.Call, ID: h.NextID(), Service: sid, Object: 1, Action: op.Action, Payload: payload}) != nil {
					break
				}
			}
		case "floodnoread":
			floods++
			// a second hostile connection that never reads its replies, then vanishes
			if conn, err := netkit.DialConn(env.Addr); err == nil {
				conn.Write(authFrame())
				time.Sleep(2 * time.Millisecond)
				conn.SetWriteDeadline(time.Now().Add(3 * time.Second))
				for k := 0; k < op.N; k++ {
					if _, err := conn.Write(netkit.Frame{Type: netkit.Call, ID: uint32(10 + 2*k), Service: sid, Object: 1, Action: op.Action, Payload: payload}.Encode()); err != nil {
						break
					}
				}
				conn.Close()
			}
		case "deafsub":
			// a second hostile connection subscribes to the signal of the pong
			// service, shuts down the reading side of its own socket (on a unix
			// socket whatever the server writes to it fails from then on, while the
			// server keeps reading from it) and goes on sending: posts which make
			// the object emit that signal to its listed, unreachable subscriber
			if conn, err := netkit.DialConn(env.Addr); err == nil {
				conn.SetWriteDeadline(time.Now().Add(3 * time.Second))
				conn.Write(authFrame())
				time.Sleep(2 * time.Millisecond)
				b := binary.LittleEndian.AppendUint32(nil, 1)
				b = binary.LittleEndian.AppendUint32(b, 102)
				b = binary.LittleEndian.AppendUint64(b, uint64(770000+i))
				conn.Write(netkit.Frame{Type: netkit.Call, ID: 5, Service: w.pongID, Object: 1, Action: 0, Payload: b}.Encode())
				time.Sleep(5 * time.Millisecond)
				if cr, ok := conn.(interface{ CloseRead() error }); ok {
					cr.CloseRead()
					vt.Label("deaf-subscriber(reading-side-shut-down)")
				}
				for k := 0; k < 6; k++ {
					if _, err := conn.Write(netkit.Frame{Type: netkit.Post, ID: uint32(20 + 2*k), Service: w.pongID, Object: 1, Action: 101, Payload: netkit.StringPayload("deaf:p")}.Encode()); err != nil {
						break
					}
					time.Sleep(200 * time.Microsecond)
				}
				time.Sleep(3 * time.Millisecond)
				conn.Close()
			}
		case "regmany":
			if manyDone {
				continue // once per case: every event is written to each of them
			}
			manyDone = true
			sig := map[string]uint32{"dir": 106, "bomb": 100, "pong": 102}[op.Svc]
			mc, err := netkit.Dial(env.Addr)
			if err != nil || !mc.Authenticate("u", "t", bound) {
				continue
			}
			defer mc.Close()
			for k := 0; k < op.N; k++ {
				b := binary.LittleEndian.AppendUint32(nil, 1)
				b = binary.LittleEndian.AppendUint32(b, sig)
				b = binary.LittleEndian.AppendUint64(b, uint64(5000000+k))
				if k%6 == 5 || k == op.N-1 { // (the server queues ten messages per connection)
					mc.CallWait(sid, 1, 0, b, short)
				} else {
					mc.Send(netkit.Frame{Type: netkit.Call, ID: mc.NextID(), Service: sid, Object: 1, Action: 0, Payload: b})
				}
			}
			vt.Label("thousands-of-registrations-from-one-connection")
		case "badauth":
			entries := map[string]ref.Dyn{"ClientServerSocket": {T: ref.Scalar(ref.KBool), V: true}, "auth_user": netkit.Str("u"), "auth_token": netkit.Str("t")}
			switch op.PKind {
			case "user-not-a-string":
				entries["auth_user"] = ref.Dyn{T: ref.Scalar(ref.KInt32), V: int32(7)}
			case "token-not-a-string":
				entries["auth_token"] = ref.Dyn{T: ref.ListOf(ref.Scalar(ref.KString)), V: ref.List{"t"}}
			case "no-credentials":
				delete(entries, "auth_user")
				delete(entries, "auth_token")
			case "known-keys-of-other-types":
				for _, k := range []string{"ClientServerSocket", "MessageFlags", "MetaObjectCache", "RemoteCancelableCalls", "ObjectPtrUID"} {
					entries[k] = ref.Dyn{T: ref.Scalar(ref.KString), V: "yes"}
				}
				entries["__qi_auth_state"] = ref.Dyn{T: ref.Scalar(ref.KString), V: "done"}
			}
			pay := netkit.CapMap(entries)
			if op.PKind == "random" {
				pay = payload
			}
			who := h
			if op.PKind == "fresh-connection" {
				// a connection which has not authenticated keeps asking, with a
				// user name which is not a string
				entries["auth_user"] = ref.Dyn{T: ref.Scalar(ref.KBool), V: false}
				pay = netkit.CapMap(entries)
				fc, err := netkit.Dial(env.Addr)
				if err != nil {
					continue
				}
				defer fc.Close()
				who = fc
			}
			for k := 0; k < op.N; k++ {
				id := who.NextID()
				from := len(who.Frames())
				who.Send(netkit.Frame{Type: netkit.Call, ID: id, Service: 0, Object: 0, Action: 8, Payload: pay})
				if !op.Unreg {
					who.WaitFrame(from, func(f netkit.Frame) bool { return f.ID == id && (f.Type == netkit.Reply || f.Type == netkit.Error) }, short)
				}
			}
			vt.Label("refused-or-odd-authenticate-requests")
		case "strangeconn":
			// a connection underneath the transport (for tcps: no TLS handshake)
			// which says something else than the protocol, or nothing, and goes
			if conn, err := netkit.DialBare(env.Addr); err == nil {
				switch op.N % 4 {
				case 0: // a well-formed cleartext frame
					conn.Write(authFrame())
				case 1: // bytes of no protocol
					conn.Write([]byte("GET / HTTP/1.0\r\n\r\n"))
				case 2: // the beginning of a TLS handshake, then silence
					conn.Write([]byte{0x16, 0x03, 0x01, 0x00, 0xa5, 0x01, 0x00, 0x00})
				}
				time.Sleep(time.Duration(op.N%3) * time.Millisecond)
				conn.Close()
			}
		case "halfframe":
			if conn, err := netkit.DialConn(env.Addr); err == nil {
				conn.Write(authFrame())
				time.Sleep(time.Millisecond)
				full := netkit.Frame{Type: netkit.Call, ID: 9, Service: sid, Object: 1, Action: 100, Payload: make([]byte, 100)}.Encode()
				conn.Write(full[:10+i%40])
				conn.Close()
			}
		case "terminate":
			id := w.sacr[(op.Obj-1)%len(w.sacr)]
			b := binary.LittleEndian.AppendUint32(nil, id)
			mid := h.NextID()
			from := len(h.Frames())
			h.Send(netkit.Frame{Type: op.Type, ID: mid, Service: w.pongID, Object: id, Action: 3, Payload: b})
			state := "maybe"
			if op.Type == netkit.Call {
				// under a flood the server may refuse the request ("consumer blocked"):
				// the object is only known to be gone once the request was acknowledged
				if r, _, ok := h.WaitFrame(from, func(f netkit.Frame) bool { return f.ID == mid }, short); ok && r.Type == netkit.Reply {
					state = "yes"
				}
			}
			if w.terminated[id] != "yes" {
				w.terminated[id] = state
			}
		case "postflood":
			floods++
			if op.Stall > 0 && op.Svc == "pong" {
				h.Send(netkit.Frame{Type: netkit.Call, ID: h.NextID(), Service: sid, Object: 1, Action: 100, Payload: netkit.StringPayload(fmt.Sprintf("stall~%d", op.Stall))})
			}
			psignal := map[string]uint32{"dir": 106, "bomb": 100, "pong": 102}[op.Svc]
			for k := 0; k < op.N; k++ {
				var pl []byte
				switch op.Action {
				case 0, 1:
					pl = binary.LittleEndian.AppendUint32(nil, 1)
					pl = binary.LittleEndian.AppendUint32(pl, psignal)
					pl = binary.LittleEndian.AppendUint64(pl, uint64(500000+1000*i+k))
				case 2:
					pl = []byte{1, 0, 0, 0}
				default:
					pl = netkit.StringPayload("quiet:p")
				}
				if h.Send(netkit.Frame{Type: netkit.Post, ID: h.NextID(), Service: sid, Object: 1, Action: op.Action, Payload: pl}) != nil {
					break
				}
			}
		case "regburst":
			floods++
			signal := map[string]uint32{"dir": 106, "bomb": 100, "pong": 102}[op.Svc]
			for r := 0; r < op.Rounds; r++ {
				bc, err := netkit.Dial(env.Addr)
				if err != nil {
					break
				}
				if !bc.Authenticate("u", "t", short) {
					bc.Close()
					break
				}
				reg := func(action uint32, k int) netkit.Frame {
					b := binary.LittleEndian.AppendUint32(nil, 1)
					b = binary.LittleEndian.AppendUint32(b, signal)
					b = binary.LittleEndian.AppendUint64(b, uint64(1000*r+k))
					return netkit.Frame{Type: netkit.Call, ID: bc.NextID(), Service: sid, Object: 1, Action: action, Payload: b}
				}
				for k := 0; k < op.N; k++ {
					f := reg(0, k)
					from := len(bc.Frames())
					bc.Send(f)
					bc.WaitFrame(from, func(g netkit.Frame) bool { return g.ID == f.ID }, short)
				}
				var burst []byte
				for k := 0; k < op.N; k++ {
					burst = append(burst, reg(1, k).Encode()...)
				}
				bc.SendRaw(burst)
				bc.Close()
			}
		case "multiflood":
			floods++
			id := w.sacr[(op.Obj-1)%len(w.sacr)]
			var conns []*netkit.RawClient
			for k := 0; k < op.Conns; k++ {
				fc, err := netkit.Dial(env.Addr)
				if err != nil {
					break
				}
				if !fc.Authenticate("u", "t", short) {
					fc.Close()
					break
				}
				conns = append(conns, fc)
			}
			if op.Stall > 0 {
				h.Send(netkit.Frame{Type: netkit.Call, ID: h.NextID(), Service: w.pongID, Object: id, Action: 100, Payload: netkit.StringPayload(fmt.Sprintf("stall~%d", op.Stall))})
			}
			mid := h.NextID()
			from := len(h.Frames())
			h.Send(netkit.Frame{Type: op.Type, ID: mid, Service: w.pongID, Object: id, Action: 3, Payload: binary.LittleEndian.AppendUint32(nil, id)})
			done := make(chan struct{}, len(conns))
			for _, fc := range conns {
				go func(fc *netkit.RawClient) {
					for k := 0; k < op.N; k++ {
						if fc.Send(netkit.Frame{Type: netkit.Call, ID: fc.NextID(), Service: w.pongID, Object: id, Action: 100, Payload: netkit.StringPayload("x")}) != nil {
							break
						}
					}
					done <- struct{}{}
				}(fc)
			}
			for range conns {
				<-done
			}
			state := "maybe"
			if op.Type == netkit.Call {
				if r, _, ok := h.WaitFrame(from, func(f netkit.Frame) bool { return f.ID == mid }, short); ok && r.Type == netkit.Reply {
					state = "yes"
				}
			}
			if w.terminated[id] != "yes" {
				w.terminated[id] = state
			}
			for _, fc := range conns {
				fc.Close()
			}
		case "unregister":
			target := w.svcID(op.Target)
			r, ok := h.CallWait(1, 1, 103, binary.LittleEndian.AppendUint32(nil, target), short)
			if ok && r.Type == netkit.Reply {
				w.listed[target] = false
			} else if !ok {
				delete(w.listed, target) // unknown whether it was processed
			}
		}
		if i%8 == 7 {
			if err := w.probeAll(fmt.Sprintf("step%d", i)); err != nil {
				return err
			}
		}
	}
	if err := w.probeAll("before-disconnect"); err != nil {
		return err
	}
	h.Close()
	time.Sleep(500 * time.Microsecond)
	if err := w.probeAll("after-disconnect"); err != nil {
		return err
	}
	nontrivial := malformedReached > 0 || repeatedSub > 0 || floods > 0
	labels := []string{}
	if malformedReached > 0 {
		labels = append(labels, "malformed-payload-reached-a-decoder")
	}
	if repeatedSub > 0 {
		labels = append(labels, "repeated-subscription")
	}
	if floods > 0 {
		labels = append(labels, "flood")
	}
	if len(w.terminated) > 0 {
		labels = append(labels, "terminate")
	}
	key, _ := json.Marshal(c)
	vt.Case(nontrivial, string(key), labels...)
	if nontrivial {
		vt.Sample("script", c.Ops)
	}
	return nil
}

func TestHostile(t *testing.T) { vt.Run(t, prop, "TestHostile", genCase, checkCase) }

func TestReplay(t *testing.T) {
	vt.Replay(t, map[string]func(json.RawMessage) error{"TestHostile": vt.Decode(checkCase)})
}
