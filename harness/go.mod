module verif/harness

go 1.23

require (
	github.com/anishathalye/porcupine v1.3.0
	github.com/ftrvxmtrx/fd v0.0.0-20150925145434-c6d800382fff
	github.com/lugu/qiloop v0.0.0
	pgregory.net/rapid v1.3.0
)

require (
	github.com/dave/jennifer v1.7.0 // indirect
	github.com/denisbrodbeck/machineid v1.0.1 // indirect
	github.com/prataprc/goparsec v0.0.0-20211219142520-daac0e635e7e // indirect
)

replace github.com/lugu/qiloop => /repo
