// Package c02value decides C02: dynamic values survive encode/decode
// unchanged, byte for byte.
package c02value

import (
	"bytes"
	"encoding/hex"
	"encoding/json"
	"fmt"
	"reflect"
	"testing"
	"time"

	"github.com/lugu/qiloop/type/value"
	"pgregory.net/rapid"
	"verif/harness/bridge"
	"verif/harness/gen"
	"verif/harness/hio"
	"verif/harness/ref"
	"verif/harness/vt"
)

const prop = "C02"

func TestMain(m *testing.M) {
	vt.Watchdog = 30 * time.Second
	vt.Main(m)
}

// Case carries a dynamic value as its reference encoding (signature + body),
// from which the abstract value is rebuilt; Desc is for the human reader.
type Case struct {
	Hex     string `json:"hex"`
	Trailer string `json:"trailer"`
	Chunks  []int  `json:"chunks"`
	Desc    string `json:"desc"`
	// Source: the concrete type of the reader NewValue is given (hio.SourceKinds)
	Source string `json:"source,omitempty"`
	// EOFWith: the value is the last thing in the stream (no trailer) and the
	// reader hands out its last bytes together with io.EOF, as io.Reader allows
	EOFWith bool `json:"eofwith,omitempty"`
}

func valueOpts() gen.ValueOpts {
	to := gen.TypeOpts{Depth: 3, Width: 3,
		Leaves: []ref.Kind{ref.KInt8, ref.KUint8, ref.KInt16, ref.KUint16, ref.KInt32, ref.KUint32, ref.KInt64, ref.KUint64,
			ref.KFloat32, ref.KFloat64, ref.KBool, ref.KString, ref.KString, ref.KValue, ref.KValue, ref.KValue, ref.KVoid, ref.KObject},
		MapKeys: gen.AllScalars, Structs: true, Tuples: true, Maps: true, Lists: true, Template: true, ZeroMem: true, CompositeKeys: true, Wide: true}
	return gen.ValueOpts{MaxLen: 4, DynDepth: 3, DynTypes: to, LongRaw: true, LongList: true, AnyBits: true}
}

func genCase(t *rapid.T) Case {
	d := gen.DrawDyn(t, valueOpts())
	desc := ref.Render(d)
	if len(desc) > 400 {
		desc = desc[:400] + "..."
	}
	c := Case{
		Hex:     hex.EncodeToString(ref.EncodeDyn(d)),
		Trailer: hex.EncodeToString(rapid.SliceOfN(rapid.Byte(), 0, 8).Draw(t, "trailer")),
		Chunks:  gen.FragPlan().Draw(t, "plan").Chunks,
		Source:  rapid.SampledFrom(hio.SourceKinds).Draw(t, "source"),
		Desc:    desc,
	}
	if rapid.IntRange(0, 4).Draw(t, "eofwith") == 0 {
		c.EOFWith, c.Trailer, c.Source = true, "", "frag"
	}
	return c
}

func dynDepth(d ref.Dyn) (depth int, dynInside bool, strInside bool) {
	var walk func(t *ref.Type, v interface{}, lvl int)
	walk = func(t *ref.Type, v interface{}, lvl int) {
		if lvl > depth {
			depth = lvl
		}
		switch t.Kind {
		case ref.KString:
			if lvl > 0 {
				strInside = true
			}
		case ref.KValue:
			if lvl > 0 {
				dynInside = true
			}
			x := v.(ref.Dyn)
			walk(x.T, x.V, lvl+1)
		case ref.KList:
			for _, e := range v.(ref.List) {
				walk(t.Elem, e, lvl+1)
			}
		case ref.KMap:
			for _, kv := range v.(ref.Map) {
				walk(t.Key, kv.K, lvl+1)
				walk(t.Elem, kv.V, lvl+1)
			}
		case ref.KTuple, ref.KStruct:
			for i, m := range t.Members {
				walk(m, v.(ref.Tuple)[i], lvl+1)
			}
		}
	}
	walk(d.T, d.V, 0)
	return
}

func classOf(d ref.Dyn) string {
	c := bridge.Ctor(d)
	if c == "Opaque" {
		if d.T.Contains(ref.KValue) {
			return "C02:opaque-containing-m"
		}
		return "C02:opaque"
	}
	return "C02:ctor:" + c
}

func checkCase(c Case) error {
	refBytes, err := hex.DecodeString(c.Hex)
	if err != nil {
		return vt.Violationf("C02:bad-case", "hex: %v", err)
	}
	trailer, _ := hex.DecodeString(c.Trailer)
	x, n, err := ref.Decode(ref.Scalar(ref.KValue), refBytes)
	if err != nil || n != len(refBytes) {
		return vt.Violationf("C02:bad-case", "reference decode: %v (%d/%d)", err, n, len(refBytes))
	}
	d := x.(ref.Dyn)
	cls := classOf(d)
	v := bridge.ToValue(d)

	// encode, compare with the documented layout
	var buf bytes.Buffer
	if err := v.Write(&buf); err != nil {
		return vt.Violationf(cls+":write-error", "Write failed for %s: %v", c.Desc, err)
	}
	b := buf.Bytes()
	if !bytes.Equal(b, refBytes) {
		return vt.Violationf(cls+":layout", "encoding of %s differs from the documented serialization\n got  %x\n want %x", c.Desc, b, refBytes)
	}
	// decode from a fragmented stream with trailing bytes
	// (a plain io.Writer must be given the same bytes as the bytes.Buffer was)
	rec := &hio.RecWriter{}
	if err := v.Write(rec); err != nil || !bytes.Equal(rec.Bytes(), b) {
		return vt.Violationf(cls+":layout:plain-writer", "encoding of %s into a plain io.Writer: error %v\n got  %x\n want %x", c.Desc, err, rec.Bytes(), b)
	}
	r, consumed := hio.Source(c.Source, append(append([]byte{}, b...), trailer...), c.Chunks, c.EOFWith)
	v2, err := value.NewValue(r)
	if err != nil {
		return vt.Violationf(cls+":decode-error", "NewValue rejects the encoding of %s: %v", c.Desc, err)
	}
	if v2 == nil {
		return vt.Violationf(cls+":decode-nil", "NewValue returned nil for %s", c.Desc)
	}
	if consumed() != len(b) {
		return vt.Violationf(cls+":consumed", "NewValue consumed %d bytes, the encoder produced %d (%s)", consumed(), len(b), c.Desc)
	}
	if v2.Signature() != v.Signature() {
		return vt.Violationf(cls+":signature", "decoded signature %q, encoded %q", v2.Signature(), v.Signature())
	}
	if reflect.TypeOf(v2) != reflect.TypeOf(v) {
		return vt.Violationf(cls+":kind", "decoded value is a %T, encoded a %T (%s)", v2, v, c.Desc)
	}
	var buf2 bytes.Buffer
	if err := v2.Write(&buf2); err != nil {
		return vt.Violationf(cls+":rewrite-error", "re-encoding the decoded value failed: %v", err)
	}
	if !bytes.Equal(buf2.Bytes(), b) {
		return vt.Violationf(cls+":reencode", "re-encoding the decoded %s gives different bytes\n got  %x\n want %x", c.Desc, buf2.Bytes(), b)
	}
	d2, err := bridge.FromValue(v2)
	if err != nil {
		return vt.Violationf(cls+":decoded-unreadable", "decoded value: %v", err)
	}
	if !ref.Equal(d, d2) {
		return vt.Violationf(cls+":not-equal", "decoded %s, want %s", ref.Render(d2), c.Desc)
	}
	// value.Bytes is the encoding minus the signature prefix
	_, body, err := bridge.ReadSig(refBytes)
	if err == nil && !bytes.Equal(value.Bytes(v2), body) {
		return vt.Violationf(cls+":bytes", "value.Bytes differs from the body of the encoding for %s", c.Desc)
	}
	depth, dynIn, strIn := dynDepth(d)
	ctor := bridge.Ctor(d)
	nontrivial := depth >= 2 || (ctor == "Opaque" && (dynIn || strIn))
	labels := []string{"ctor=" + ctor, fmt.Sprintf("depth=%d", min(depth, 6))}
	if ctor == "Opaque" && dynIn {
		for _, k := range []struct {
			k ref.Kind
			n string
		}{{ref.KList, "list"}, {ref.KMap, "map"}, {ref.KStruct, "struct"}, {ref.KTuple, "tuple"}} {
			if d.T.Contains(k.k) {
				labels = append(labels, "m-inside-opaque-"+k.n)
			}
		}
	}
	if d.T.Contains(ref.KObject) {
		labels = append(labels, "contains-object-ref")
	}
	vt.Case(nontrivial, c.Hex, labels...)
	if nontrivial {
		vt.Sample("value", map[string]string{"desc": c.Desc, "hex": c.Hex})
	}
	return nil
}

func TestRoundTrip(t *testing.T) { vt.Run(t, prop, "TestRoundTrip", genCase, checkCase) }

func TestReplay(t *testing.T) {
	vt.Replay(t, map[string]func(json.RawMessage) error{"TestRoundTrip": vt.Decode(checkCase)})
}
