package c02value

import (
	"bytes"
	"testing"

	"github.com/lugu/qiloop/type/value"
	"pgregory.net/rapid"
	"verif/harness/gen"
	"verif/harness/ref"
)

// FuzzNewValue (thorough tier): for arbitrary bytes, NewValue either fails or
// yields a value whose encoding is a fixed point of decode/encode: decoding
// the re-encoding succeeds, consumes all of it and re-encodes identically.
// (Equality with the input is only required inside the encoder's image, which
// TestRoundTrip covers; e.g. a top-level "m" wrapper is legitimately dropped.)
func FuzzNewValue(f *testing.F) {
	for i := 0; i < 24; i++ {
		f.Add(ref.EncodeDyn(gen.Dyn(valueOpts()).Example(i)))
	}
	f.Add([]byte{3, 0, 0, 0, '[', 'm', ']', 0xff, 0xff, 0xff, 0xff})
	f.Add([]byte{1, 0, 0, 0, 'r', 0xff, 0xff, 0xff, 0x7f})
	f.Fuzz(func(t *testing.T, data []byte) {
		if len(data) > 1<<14 {
			return
		}
		v, err := value.NewValue(bytes.NewReader(data))
		if err != nil {
			return
		}
		if v == nil {
			t.Fatalf("nil value without error")
		}
		var b1 bytes.Buffer
		if err := v.Write(&b1); err != nil {
			t.Fatalf("accepted value cannot be written: %v", err)
		}
		r := bytes.NewReader(b1.Bytes())
		v2, err := value.NewValue(r)
		if err != nil {
			t.Fatalf("the encoding %x of an accepted value is rejected: %v", b1.Bytes(), err)
		}
		if r.Len() != 0 {
			t.Fatalf("decoder left %d bytes of the value's own encoding", r.Len())
		}
		var b2 bytes.Buffer
		v2.Write(&b2)
		if !bytes.Equal(b1.Bytes(), b2.Bytes()) {
			t.Fatalf("re-encoding is not a fixed point: %x then %x", b1.Bytes(), b2.Bytes())
		}
	})
}

var _ = rapid.Just[int]
