package ref

import (
	"encoding/binary"
	"errors"
	"fmt"
	"math"
	"sort"
	"strings"
)

// Abstract values. Scalars are the Go native types (int8 ... uint64, float32,
// float64, bool, string). Void is nil.
type (
	// List is the value of a [T].
	List []interface{}
	// KV is one entry of a map value.
	KV struct{ K, V interface{} }
	// Map is the value of a {KT}: entries in encoding order, keys distinct.
	Map []KV
	// Tuple is the value of a tuple or a struct.
	Tuple []interface{}
	// Dyn is the value of an `m`: a value V together with its concrete type T.
	// T.Kind == KRaw carries a []byte, T.Kind == KVoid carries nil.
	Dyn struct {
		T *Type
		V interface{}
	}
)

// FieldKind names the kind of a length-like field in an encoding.
type FieldKind string

const (
	FStrLen FieldKind = "strlen" // u32 length of a string body
	FSigLen FieldKind = "siglen" // u32 length of the signature of a dynamic value
	FCount  FieldKind = "count"  // u32 element count of a list or map
	FRawLen FieldKind = "rawlen" // u32 length of a raw buffer
)

// Field locates a length-like field inside an encoding.
type Field struct {
	Off  int
	Kind FieldKind
}

// Encoder is the reference encoder; it records where the length fields are.
type Encoder struct {
	Buf    []byte
	Fields []Field
	// Spans records [start,end) of every leaf field, for C08's cut classes.
	Spans []Span
}

// Span is the byte range of one encoded leaf.
type Span struct {
	Start, End int
	What       string // "scalar", "strlen", "strbody", "count", "siglen", "sigbody", "rawlen", "rawbody"
}

func (e *Encoder) u32(v uint32, kind FieldKind) {
	e.Fields = append(e.Fields, Field{Off: len(e.Buf), Kind: kind})
	e.span(4, string(kind))
	e.Buf = binary.LittleEndian.AppendUint32(e.Buf, v)
}

func (e *Encoder) span(n int, what string) {
	if n > 0 {
		e.Spans = append(e.Spans, Span{Start: len(e.Buf), End: len(e.Buf) + n, What: what})
	}
}

func (e *Encoder) str(s string, lenKind FieldKind, body string) {
	e.u32(uint32(len(s)), lenKind)
	e.span(len(s), body)
	e.Buf = append(e.Buf, s...)
}

// Encode returns the documented serialization of v as a value of type t.
func Encode(t *Type, v interface{}) []byte {
	var e Encoder
	if err := e.Encode(t, v); err != nil {
		panic(err)
	}
	return e.Buf
}

// EncodeDyn returns the serialization of a dynamic value (signature + body).
func EncodeDyn(d Dyn) []byte {
	return Encode(Scalar(KValue), d)
}

// Encode appends the serialization of v.
func (e *Encoder) Encode(t *Type, v interface{}) error {
	bad := func() error { return fmt.Errorf("ref.Encode: %T is not a value of %s", v, t.Sig()) }
	switch t.Kind {
	case KInt8:
		x, ok := v.(int8)
		if !ok {
			return bad()
		}
		e.span(1, "scalar")
		e.Buf = append(e.Buf, byte(x))
	case KUint8:
		x, ok := v.(uint8)
		if !ok {
			return bad()
		}
		e.span(1, "scalar")
		e.Buf = append(e.Buf, x)
	case KInt16:
		x, ok := v.(int16)
		if !ok {
			return bad()
		}
		e.span(2, "scalar")
		e.Buf = binary.LittleEndian.AppendUint16(e.Buf, uint16(x))
	case KUint16:
		x, ok := v.(uint16)
		if !ok {
			return bad()
		}
		e.span(2, "scalar")
		e.Buf = binary.LittleEndian.AppendUint16(e.Buf, x)
	case KInt32:
		x, ok := v.(int32)
		if !ok {
			return bad()
		}
		e.span(4, "scalar")
		e.Buf = binary.LittleEndian.AppendUint32(e.Buf, uint32(x))
	case KUint32:
		x, ok := v.(uint32)
		if !ok {
			return bad()
		}
		e.span(4, "scalar")
		e.Buf = binary.LittleEndian.AppendUint32(e.Buf, x)
	case KInt64:
		x, ok := v.(int64)
		if !ok {
			return bad()
		}
		e.span(8, "scalar")
		e.Buf = binary.LittleEndian.AppendUint64(e.Buf, uint64(x))
	case KUint64:
		x, ok := v.(uint64)
		if !ok {
			return bad()
		}
		e.span(8, "scalar")
		e.Buf = binary.LittleEndian.AppendUint64(e.Buf, x)
	case KFloat32:
		x, ok := v.(float32)
		if !ok {
			return bad()
		}
		e.span(4, "scalar")
		e.Buf = binary.LittleEndian.AppendUint32(e.Buf, math.Float32bits(x))
	case KFloat64:
		x, ok := v.(float64)
		if !ok {
			return bad()
		}
		e.span(8, "scalar")
		e.Buf = binary.LittleEndian.AppendUint64(e.Buf, math.Float64bits(x))
	case KBool:
		x, ok := v.(bool)
		if !ok {
			return bad()
		}
		e.span(1, "scalar")
		if x {
			e.Buf = append(e.Buf, 1)
		} else {
			e.Buf = append(e.Buf, 0)
		}
	case KString:
		x, ok := v.(string)
		if !ok {
			return bad()
		}
		e.str(x, FStrLen, "strbody")
	case KRaw:
		x, ok := v.([]byte)
		if !ok {
			return bad()
		}
		e.u32(uint32(len(x)), FRawLen)
		e.span(len(x), "rawbody")
		e.Buf = append(e.Buf, x...)
	case KVoid:
		if v != nil {
			return bad()
		}
	case KUnknown:
		return errors.New("ref.Encode: X has no encoding")
	case KValue:
		d, ok := v.(Dyn)
		if !ok {
			return bad()
		}
		e.str(d.T.Sig(), FSigLen, "sigbody")
		return e.Encode(d.T, d.V)
	case KObject:
		return e.Encode(ObjectRefType, v)
	case KList:
		l, ok := v.(List)
		if !ok {
			return bad()
		}
		e.u32(uint32(len(l)), FCount)
		for _, x := range l {
			if err := e.Encode(t.Elem, x); err != nil {
				return err
			}
		}
	case KMap:
		m, ok := v.(Map)
		if !ok {
			return bad()
		}
		e.u32(uint32(len(m)), FCount)
		for _, kv := range m {
			if err := e.Encode(t.Key, kv.K); err != nil {
				return err
			}
			if err := e.Encode(t.Elem, kv.V); err != nil {
				return err
			}
		}
	case KTuple, KStruct:
		tu, ok := v.(Tuple)
		if !ok || len(tu) != len(t.Members) {
			return bad()
		}
		for i, m := range t.Members {
			if err := e.Encode(m, tu[i]); err != nil {
				return err
			}
		}
	default:
		return bad()
	}
	return nil
}

// ErrShort is returned by Decode when the input ends inside a value.
var ErrShort = errors.New("ref.Decode: short input")

// Decode is the reference decoder: it returns the value of type t encoded at
// the start of b and the number of bytes it occupies.
func Decode(t *Type, b []byte) (interface{}, int, error) {
	d := decoder{b: b}
	v, err := d.decode(t, 0)
	return v, d.pos, err
}

type decoder struct {
	b   []byte
	pos int
}

func (d *decoder) take(n int) ([]byte, error) {
	if n < 0 || len(d.b)-d.pos < n {
		return nil, ErrShort
	}
	s := d.b[d.pos : d.pos+n]
	d.pos += n
	return s, nil
}

func (d *decoder) u32() (uint32, error) {
	s, err := d.take(4)
	if err != nil {
		return 0, err
	}
	return binary.LittleEndian.Uint32(s), nil
}

func (d *decoder) decode(t *Type, depth int) (interface{}, error) {
	if depth > 200 {
		return nil, errors.New("ref.Decode: too deep")
	}
	switch t.Kind {
	case KInt8:
		s, err := d.take(1)
		if err != nil {
			return nil, err
		}
		return int8(s[0]), nil
	case KUint8:
		s, err := d.take(1)
		if err != nil {
			return nil, err
		}
		return s[0], nil
	case KInt16:
		s, err := d.take(2)
		if err != nil {
			return nil, err
		}
		return int16(binary.LittleEndian.Uint16(s)), nil
	case KUint16:
		s, err := d.take(2)
		if err != nil {
			return nil, err
		}
		return binary.LittleEndian.Uint16(s), nil
	case KInt32:
		x, err := d.u32()
		return int32(x), err
	case KUint32:
		x, err := d.u32()
		return x, err
	case KInt64:
		s, err := d.take(8)
		if err != nil {
			return nil, err
		}
		return int64(binary.LittleEndian.Uint64(s)), nil
	case KUint64:
		s, err := d.take(8)
		if err != nil {
			return nil, err
		}
		return binary.LittleEndian.Uint64(s), nil
	case KFloat32:
		x, err := d.u32()
		return math.Float32frombits(x), err
	case KFloat64:
		s, err := d.take(8)
		if err != nil {
			return nil, err
		}
		return math.Float64frombits(binary.LittleEndian.Uint64(s)), nil
	case KBool:
		s, err := d.take(1)
		if err != nil {
			return nil, err
		}
		return s[0] != 0, nil
	case KString:
		n, err := d.u32()
		if err != nil {
			return nil, err
		}
		s, err := d.take(int(n))
		if err != nil {
			return nil, err
		}
		return string(s), nil
	case KRaw:
		n, err := d.u32()
		if err != nil {
			return nil, err
		}
		s, err := d.take(int(n))
		if err != nil {
			return nil, err
		}
		return append([]byte{}, s...), nil
	case KVoid:
		return nil, nil
	case KUnknown:
		return nil, errors.New("ref.Decode: X cannot be decoded")
	case KValue:
		n, err := d.u32()
		if err != nil {
			return nil, err
		}
		s, err := d.take(int(n))
		if err != nil {
			return nil, err
		}
		var it *Type
		if string(s) == "r" {
			it = Scalar(KRaw)
		} else if it, err = ParseSig(string(s)); err != nil {
			return nil, err
		}
		v, err := d.decode(it, depth+1)
		if err != nil {
			return nil, err
		}
		return Dyn{T: it, V: v}, nil
	case KObject:
		return d.decode(ObjectRefType, depth+1)
	case KList:
		n, err := d.u32()
		if err != nil {
			return nil, err
		}
		if int64(n) > int64(len(d.b)-d.pos) && minSize(t.Elem) > 0 {
			return nil, ErrShort
		}
		if n > 1<<20 {
			return nil, errors.New("ref.Decode: count too large for a reference run")
		}
		l := make(List, 0, 8)
		for i := uint32(0); i < n; i++ {
			x, err := d.decode(t.Elem, depth+1)
			if err != nil {
				return nil, err
			}
			l = append(l, x)
		}
		return l, nil
	case KMap:
		n, err := d.u32()
		if err != nil {
			return nil, err
		}
		if int64(n) > int64(len(d.b)-d.pos) && minSize(t.Key)+minSize(t.Elem) > 0 {
			return nil, ErrShort
		}
		if n > 1<<20 {
			return nil, errors.New("ref.Decode: count too large for a reference run")
		}
		m := make(Map, 0, 8)
		for i := uint32(0); i < n; i++ {
			k, err := d.decode(t.Key, depth+1)
			if err != nil {
				return nil, err
			}
			v, err := d.decode(t.Elem, depth+1)
			if err != nil {
				return nil, err
			}
			m = append(m, KV{k, v})
		}
		return m, nil
	case KTuple, KStruct:
		tu := make(Tuple, 0, len(t.Members))
		for _, mt := range t.Members {
			x, err := d.decode(mt, depth+1)
			if err != nil {
				return nil, err
			}
			tu = append(tu, x)
		}
		return tu, nil
	}
	return nil, fmt.Errorf("ref.Decode: unknown kind %d", t.Kind)
}

// minSize is the minimal encoded size of a value of type t.
func minSize(t *Type) int {
	switch t.Kind {
	case KInt8, KUint8, KBool:
		return 1
	case KInt16, KUint16:
		return 2
	case KInt32, KUint32, KFloat32, KString, KRaw, KList, KMap:
		return 4
	case KInt64, KUint64, KFloat64:
		return 8
	case KValue:
		return 5
	case KObject:
		return minSize(ObjectRefType)
	case KTuple, KStruct:
		n := 0
		for _, m := range t.Members {
			n += minSize(m)
		}
		return n
	}
	return 0
}

// MinSize exports minSize.
func MinSize(t *Type) int { return minSize(t) }

// Equal compares two abstract values structurally; floats by bit pattern; maps
// as sets of entries (order-insensitive).
func Equal(a, b interface{}) bool {
	switch x := a.(type) {
	case float32:
		y, ok := b.(float32)
		return ok && math.Float32bits(x) == math.Float32bits(y)
	case float64:
		y, ok := b.(float64)
		return ok && math.Float64bits(x) == math.Float64bits(y)
	case []byte:
		y, ok := b.([]byte)
		return ok && string(x) == string(y)
	case List:
		y, ok := b.(List)
		if !ok || len(x) != len(y) {
			return false
		}
		for i := range x {
			if !Equal(x[i], y[i]) {
				return false
			}
		}
		return true
	case Tuple:
		y, ok := b.(Tuple)
		if !ok || len(x) != len(y) {
			return false
		}
		for i := range x {
			if !Equal(x[i], y[i]) {
				return false
			}
		}
		return true
	case Map:
		y, ok := b.(Map)
		if !ok || len(x) != len(y) {
			return false
		}
		return strings.Join(mapKeys(x), "\x00|") == strings.Join(mapKeys(y), "\x00|")
	case Dyn:
		y, ok := b.(Dyn)
		return ok && x.T.Sig() == y.T.Sig() && Equal(x.V, y.V)
	case nil:
		return b == nil
	default:
		return a == b
	}
}

// mapKeys renders every entry canonically and sorts them.
func mapKeys(m Map) []string {
	out := make([]string, len(m))
	for i, kv := range m {
		out[i] = Render(kv.K) + "=>" + Render(kv.V)
	}
	sort.Strings(out)
	return out
}

// Render prints an abstract value canonically (used for equality of map
// entries, case keys and samples).
func Render(v interface{}) string {
	switch x := v.(type) {
	case nil:
		return "void"
	case float32:
		return fmt.Sprintf("f32:%08x", math.Float32bits(x))
	case float64:
		return fmt.Sprintf("f64:%016x", math.Float64bits(x))
	case string:
		return fmt.Sprintf("%q", x)
	case []byte:
		return fmt.Sprintf("raw:%x", x)
	case bool:
		return fmt.Sprintf("%v", x)
	case List:
		parts := make([]string, len(x))
		for i, e := range x {
			parts[i] = Render(e)
		}
		return "[" + strings.Join(parts, ",") + "]"
	case Tuple:
		parts := make([]string, len(x))
		for i, e := range x {
			parts[i] = Render(e)
		}
		return "(" + strings.Join(parts, ",") + ")"
	case Map:
		return "{" + strings.Join(mapKeys(x), ",") + "}"
	case Dyn:
		return "m<" + x.T.Sig() + ">" + Render(x.V)
	default:
		return fmt.Sprintf("%T:%v", v, v)
	}
}

// MapEntryEncodings returns the encodings of the entries of a map value, for
// order-insensitive comparison of map encodings.
func MapEntryEncodings(t *Type, m Map) []string {
	out := make([]string, len(m))
	for i, kv := range m {
		out[i] = string(Encode(t.Key, kv.K)) + string(Encode(t.Elem, kv.V))
	}
	sort.Strings(out)
	return out
}
