// Package ref is the reference side of the oracles: an AST for the documented
// signature grammar, an independent signature parser/printer, the IDL spelling
// of types, and a reference encoder/decoder written from the "Serialization"
// section of doc/about-qimessaging.md. It imports nothing from lugu/qiloop.
package ref

import (
	"fmt"
	"strings"
)

// Kind enumerates the type constructors of the signature grammar.
type Kind int

const (
	KInt8    Kind = iota // c
	KUint8               // C
	KInt16               // w
	KUint16              // W
	KInt32               // i
	KUint32              // I
	KInt64               // l
	KUint64              // L
	KFloat32             // f
	KFloat64             // d
	KBool                // b
	KString              // s
	KValue               // m
	KObject              // o
	KUnknown             // X
	KVoid                // v
	KRaw                 // r (only as the tag of a dynamic value)
	KList                // [T]
	KMap                 // {KT}
	KTuple               // (T...)
	KStruct              // (T...)<Name,f...>
)

var scalarLetters = map[Kind]string{
	KInt8: "c", KUint8: "C", KInt16: "w", KUint16: "W", KInt32: "i", KUint32: "I",
	KInt64: "l", KUint64: "L", KFloat32: "f", KFloat64: "d", KBool: "b", KString: "s",
	KValue: "m", KObject: "o", KUnknown: "X", KVoid: "v", KRaw: "r",
}

var letterKinds = func() map[byte]Kind {
	m := map[byte]Kind{}
	for k, l := range scalarLetters {
		m[l[0]] = k
	}
	return m
}()

var idlNames = map[Kind]string{
	KInt8: "int8", KUint8: "uint8", KInt16: "int16", KUint16: "uint16", KInt32: "int32", KUint32: "uint32",
	KInt64: "int64", KUint64: "uint64", KFloat32: "float32", KFloat64: "float64", KBool: "bool", KString: "str",
	KValue: "any", KObject: "obj", KUnknown: "unknown", KVoid: "nothing",
}

// Type is a node of the signature grammar.
type Type struct {
	Kind    Kind
	Elem    *Type   // list element, map value
	Key     *Type   // map key
	Members []*Type // tuple / struct members
	Name    string  // struct name (may be template style: Name<Arg>)
	Fields  []string
}

// Scalar builds a leaf type.
func Scalar(k Kind) *Type { return &Type{Kind: k} }

// ListOf builds [T].
func ListOf(e *Type) *Type { return &Type{Kind: KList, Elem: e} }

// MapOf builds {KT}.
func MapOf(k, v *Type) *Type { return &Type{Kind: KMap, Key: k, Elem: v} }

// TupleOf builds (T...).
func TupleOf(m ...*Type) *Type { return &Type{Kind: KTuple, Members: m} }

// StructOf builds (T...)<Name,fields...>.
func StructOf(name string, fields []string, m []*Type) *Type {
	return &Type{Kind: KStruct, Name: name, Fields: fields, Members: m}
}

// IsScalar reports whether the type is a leaf.
func (t *Type) IsScalar() bool { return t.Kind < KList }

// Sig prints the signature string.
func (t *Type) Sig() string {
	var sb strings.Builder
	t.sig(&sb)
	return sb.String()
}

func (t *Type) sig(sb *strings.Builder) {
	switch t.Kind {
	case KList:
		sb.WriteByte('[')
		t.Elem.sig(sb)
		sb.WriteByte(']')
	case KMap:
		sb.WriteByte('{')
		t.Key.sig(sb)
		t.Elem.sig(sb)
		sb.WriteByte('}')
	case KTuple, KStruct:
		sb.WriteByte('(')
		for _, m := range t.Members {
			m.sig(sb)
		}
		sb.WriteByte(')')
		if t.Kind == KStruct {
			sb.WriteByte('<')
			sb.WriteString(t.Name)
			for _, f := range t.Fields {
				sb.WriteByte(',')
				sb.WriteString(f)
			}
			sb.WriteByte('>')
		}
	default:
		sb.WriteString(scalarLetters[t.Kind])
	}
}

// IDL prints the IDL spelling of the type (Vec<..>, Map<..,..>, Tuple<..>,
// struct name), as documented in the IDL grammar.
func (t *Type) IDL() string {
	switch t.Kind {
	case KList:
		return "Vec<" + t.Elem.IDL() + ">"
	case KMap:
		return "Map<" + t.Key.IDL() + "," + t.Elem.IDL() + ">"
	case KTuple:
		parts := make([]string, len(t.Members))
		for i, m := range t.Members {
			parts[i] = m.IDL()
		}
		return "Tuple<" + strings.Join(parts, ",") + ">"
	case KStruct:
		return t.Name
	default:
		return idlNames[t.Kind]
	}
}

// Depth is the nesting depth (scalars are 0).
func (t *Type) Depth() int {
	d := 0
	for _, c := range t.children() {
		if cd := c.Depth(); cd > d {
			d = cd
		}
	}
	if t.IsScalar() {
		return 0
	}
	return d + 1
}

func (t *Type) children() []*Type {
	switch t.Kind {
	case KList:
		return []*Type{t.Elem}
	case KMap:
		return []*Type{t.Key, t.Elem}
	case KTuple, KStruct:
		return t.Members
	}
	return nil
}

// Walk visits every node.
func (t *Type) Walk(f func(*Type)) {
	f(t)
	for _, c := range t.children() {
		c.Walk(f)
	}
}

// Contains reports whether any node has one of the kinds.
func (t *Type) Contains(kinds ...Kind) bool {
	found := false
	t.Walk(func(n *Type) {
		for _, k := range kinds {
			if n.Kind == k {
				found = true
			}
		}
	})
	return found
}

// Equal is structural equality including names.
func (t *Type) Equal(o *Type) bool {
	return t.Sig() == o.Sig()
}

// ---------------------------------------------------------------------------
// Reference signature parser (recursive descent, linear time). It implements
// the grammar as documented and as printed by Sig(): it is used to rebuild a
// Type from a replay file and as a differential oracle for signature.Parse.

// ParseSig parses a complete signature.
func ParseSig(s string) (*Type, error) {
	p := &sigParser{s: s}
	t, err := p.parseType()
	if err != nil {
		return nil, err
	}
	if p.pos != len(s) {
		return nil, fmt.Errorf("trailing input at %d in %q", p.pos, s)
	}
	return t, nil
}

type sigParser struct {
	s     string
	pos   int
	depth int
}

func (p *sigParser) peek() byte {
	if p.pos < len(p.s) {
		return p.s[p.pos]
	}
	return 0
}

func isAlpha(c byte) bool { return (c >= 'a' && c <= 'z') || (c >= 'A' && c <= 'Z') }
func isAlnum(c byte) bool { return isAlpha(c) || (c >= '0' && c <= '9') || c == '_' }

func (p *sigParser) ident() (string, bool) {
	start := p.pos
	if !isAlpha(p.peek()) {
		return "", false
	}
	for p.pos < len(p.s) && isAlnum(p.s[p.pos]) {
		p.pos++
	}
	return p.s[start:p.pos], true
}

func (p *sigParser) parseType() (*Type, error) {
	if p.pos >= len(p.s) {
		return nil, fmt.Errorf("unexpected end of signature %q", p.s)
	}
	c := p.s[p.pos]
	switch c {
	case '[':
		p.pos++
		e, err := p.parseType()
		if err != nil {
			return nil, err
		}
		if p.peek() != ']' {
			return nil, fmt.Errorf("expected ] at %d in %q", p.pos, p.s)
		}
		p.pos++
		return ListOf(e), nil
	case '{':
		p.pos++
		k, err := p.parseType()
		if err != nil {
			return nil, err
		}
		v, err := p.parseType()
		if err != nil {
			return nil, err
		}
		if p.peek() != '}' {
			return nil, fmt.Errorf("expected } at %d in %q", p.pos, p.s)
		}
		p.pos++
		return MapOf(k, v), nil
	case '(':
		p.pos++
		var members []*Type
		for p.peek() != ')' {
			m, err := p.parseType()
			if err != nil {
				return nil, err
			}
			members = append(members, m)
		}
		p.pos++
		if p.peek() != '<' {
			return TupleOf(members...), nil
		}
		p.pos++
		name, ok := p.ident()
		if !ok {
			return nil, fmt.Errorf("expected struct name at %d in %q", p.pos, p.s)
		}
		// template style name: Name<Arg>
		if p.peek() == '<' {
			save := p.pos
			p.pos++
			arg, ok := p.ident()
			if ok && p.peek() == '>' {
				p.pos++
				name = name + "<" + arg + ">"
			} else {
				p.pos = save
			}
		}
		var fields []string
		for p.peek() == ',' {
			p.pos++
			f, ok := p.ident()
			if !ok {
				return nil, fmt.Errorf("expected field name at %d in %q", p.pos, p.s)
			}
			fields = append(fields, f)
		}
		if p.peek() != '>' {
			return nil, fmt.Errorf("expected > at %d in %q", p.pos, p.s)
		}
		p.pos++
		if len(fields) != len(members) {
			return nil, fmt.Errorf("struct %s: %d names for %d members", name, len(fields), len(members))
		}
		return StructOf(name, fields, members), nil
	default:
		k, ok := letterKinds[c]
		if !ok || k == KRaw { // `r` is only the tag of a top-level dynamic value, not a signature

			return nil, fmt.Errorf("unexpected %q at %d in %q", c, p.pos, p.s)
		}
		p.pos++
		return Scalar(k), nil
	}
}

// ObjectReferenceSignature is the documented expansion of an object reference
// (MetaObject, service id, object id); an `o` member is serialised as a value
// of this type.
const ObjectReferenceSignature = "(({I(Issss[(ss)<MetaMethodParameter,name,description>]s)<MetaMethod,uid,returnSignature,name,parametersSignature,description,parameters,returnDescription>}{I(Iss)<MetaSignal,uid,name,signature>}{I(Iss)<MetaProperty,uid,name,signature>}s)<MetaObject,methods,signals,properties,description>II)<ObjectReference,metaObject,serviceID,objectID>"

// MetaObjectSignature is the documented signature of a MetaObject.
const MetaObjectSignature = "({I(Issss[(ss)<MetaMethodParameter,name,description>]s)<MetaMethod,uid,returnSignature,name,parametersSignature,description,parameters,returnDescription>}{I(Iss)<MetaSignal,uid,name,signature>}{I(Iss)<MetaProperty,uid,name,signature>}s)<MetaObject,methods,signals,properties,description>"

// ObjectRefType is the parsed ObjectReferenceSignature.
var ObjectRefType = mustParse(ObjectReferenceSignature)

// MetaObjectType is the parsed MetaObjectSignature.
var MetaObjectType = mustParse(MetaObjectSignature)

func mustParse(s string) *Type {
	t, err := ParseSig(s)
	if err != nil {
		panic(err)
	}
	return t
}
