// Package c20conv decides C20: structural conversion preserves every value.
package c20conv

import (
	"bytes"
	"encoding/hex"
	"encoding/json"
	"fmt"
	"math"
	"reflect"
	"strings"
	"testing"
	"time"

	"github.com/lugu/qiloop/bus"
	"github.com/lugu/qiloop/type/conversion"
	"github.com/lugu/qiloop/type/encoding"
	"github.com/lugu/qiloop/type/object"
	"pgregory.net/rapid"
	"verif/harness/bridge"
	"verif/harness/gen"
	"verif/harness/ref"
	"verif/harness/vt"
)

const prop = "C20"

func TestMain(m *testing.M) {
	vt.Watchdog = 30 * time.Second
	vt.Main(m)
}

// Case: a source type and value, a plan that derives the destination type
// (widening steps for scalar leaves, permutation/case seeds for structs, in
// depth-first order), and optionally one leaf made incompatible.
type Case struct {
	Sig      string `json:"sig"`
	Hex      string `json:"hex"`
	Plan     []int  `json:"plan"`
	Incompat int    `json:"incompat"` // -1: compatible pair; else index of the node (DFS order) replaced
	Repl     string `json:"repl,omitempty"`
	Desc     string `json:"desc"`
	// Hex2: a second value of the same type, converted afterwards into the
	// destination of the first conversion once that one has been emptied
	// (slices of scalars cut to length zero with their capacity kept, everything else zeroed)
	Hex2 string `json:"hex2,omitempty"`
	// Keep: the destination is not emptied before the second conversion (a
	// variable holding the previous answer is handed in again); only for
	// destination types without a map, interface or pointer, whose conversion
	// overwrites every element and field it reaches
	Keep bool `json:"keep,omitempty"`
}

func typeOpts() gen.TypeOpts {
	return gen.TypeOpts{Depth: 3, Width: 4, Leaves: gen.AllScalars, MapKeys: gen.KeyScalars,
		Structs: true, Tuples: true, Maps: true, Lists: true, ZeroMem: true, Wide: true}
}

func countNodes(t *ref.Type) int {
	n := 0
	t.Walk(func(*ref.Type) { n++ })
	return n
}

func genCase(t *rapid.T) Case {
	ty := gen.DrawType(t, typeOpts())
	vo := gen.DefaultValueOpts()
	v := gen.DrawValue(t, ty, vo)
	n := countNodes(ty)
	plan := make([]int, 2*n)
	for i := range plan {
		plan[i] = rapid.IntRange(0, 5).Draw(t, "plan")
	}
	c := Case{Sig: ty.Sig(), Hex: hex.EncodeToString(ref.Encode(ty, v)), Plan: plan, Incompat: -1, Desc: ref.Render(v)}
	if rapid.IntRange(0, 3).Draw(t, "incompatible") == 0 {
		c.Incompat = rapid.IntRange(0, n-1).Draw(t, "node")
		c.Repl = rapid.SampledFrom([]string{"bool", "string", "int32", "uint16", "float64", "slice", "map", "struct"}).Draw(t, "repl")
	}
	if len(c.Desc) > 300 {
		c.Desc = c.Desc[:300] + "..."
	}
	if c.Incompat < 0 && rapid.Bool().Draw(t, "second") {
		v2 := gen.DrawValue(t, ty, vo)
		if rapid.IntRange(0, 3).Draw(t, "shorter") == 0 {
			v2 = shrinkLists(v2)
		}
		c.Hex2 = hex.EncodeToString(ref.Encode(ty, v2))
		c.Keep = rapid.Bool().Draw(t, "keep")
	}
	return c
}

// emptyKeepingCapacity turns a destination which has been used into one that
// is empty again but still owns its storage: what a caller reusing a buffer
// passes.
func emptyKeepingCapacity(v reflect.Value) {
	switch v.Kind() {
	case reflect.Slice:
		// only slices of scalars keep their storage: the stale elements behind
		// the length are plain numbers or strings which any conversion must
		// overwrite. (A stale map or struct behind the length would be merged
		// into by the library, as encoding/json does; what that should yield
		// is not something the property says.)
		switch v.Type().Elem().Kind() {
		case reflect.Slice, reflect.Map, reflect.Struct, reflect.Interface, reflect.Ptr:
			v.Set(reflect.Zero(v.Type()))
		default:
			if !v.IsNil() {
				v.SetLen(0)
			}
		}
	case reflect.Map:
		v.Set(reflect.Zero(v.Type()))
	case reflect.Struct:
		for i := 0; i < v.NumField(); i++ {
			emptyKeepingCapacity(v.Field(i))
		}
	}
}

// shrinkLists empties every list of the value: the second value of a reused
// destination is then shorter than the first one wherever it can be.
func shrinkLists(v interface{}) interface{} {
	switch x := v.(type) {
	case ref.List:
		return ref.List{}
	case ref.Tuple:
		out := make(ref.Tuple, len(x))
		for i, e := range x {
			out[i] = shrinkLists(e)
		}
		return out
	}
	return v
}

// overwritesEverything: a conversion into a destination of this type which
// already holds a value leaves nothing of that value (slices are cut or grown
// to the source's length, every element and every field is assigned). Maps are
// merged into, interfaces and pointers are followed: not judged.
func overwritesEverything(t reflect.Type) bool {
	switch t.Kind() {
	case reflect.Map, reflect.Interface, reflect.Ptr:
		return false
	case reflect.Slice:
		return overwritesEverything(t.Elem())
	case reflect.Struct:
		for i := 0; i < t.NumField(); i++ {
			if !overwritesEverything(t.Field(i).Type) {
				return false
			}
		}
	}
	return true
}

var signed = []reflect.Type{reflect.TypeOf(int8(0)), reflect.TypeOf(int16(0)), reflect.TypeOf(int32(0)), reflect.TypeOf(int64(0)), reflect.TypeOf(int(0))}
var unsigned = []reflect.Type{reflect.TypeOf(uint8(0)), reflect.TypeOf(uint16(0)), reflect.TypeOf(uint32(0)), reflect.TypeOf(uint64(0)), reflect.TypeOf(uint(0))}
var floats = []reflect.Type{reflect.TypeOf(float32(0)), reflect.TypeOf(float64(0))}

func family(k reflect.Kind) string {
	switch k {
	case reflect.Bool:
		return "bool"
	case reflect.String:
		return "string"
	case reflect.Int, reflect.Int8, reflect.Int16, reflect.Int32, reflect.Int64, reflect.Uint, reflect.Uint8, reflect.Uint16, reflect.Uint32, reflect.Uint64:
		return "int"
	case reflect.Float32, reflect.Float64:
		return "float"
	case reflect.Slice:
		return "slice"
	case reflect.Map:
		return "map"
	case reflect.Struct:
		return "struct"
	}
	return k.String()
}

var replTypes = map[string]reflect.Type{
	"bool": reflect.TypeOf(false), "string": reflect.TypeOf(""), "int32": reflect.TypeOf(int32(0)), "uint16": reflect.TypeOf(uint16(0)),
	"float64": reflect.TypeOf(float64(0)), "slice": reflect.TypeOf([]int32{}), "map": reflect.TypeOf(map[string]int32{}),
	"struct": reflect.TypeOf(struct{ A int32 }{}),
}

// dnode describes the destination type of one source node.
type dnode struct {
	typ      reflect.Type
	children []*dnode // list: elem; map: key, elem; struct: per SOURCE member
	perm     []int    // struct: destination field index of source member i
	replaced bool
	widened  string
}

type builder struct {
	plan     []int
	pos      int
	node     int
	incompat int
	repl     string
	labels   map[string]bool
	skipped  bool // the requested replacement was of the same family: not an incompatible pair
}

func (b *builder) next() int {
	if b.pos < len(b.plan) {
		b.pos++
		return b.plan[b.pos-1]
	}
	return 0
}

func widen(list []reflect.Type, src reflect.Type, steps int) reflect.Type {
	for i, t := range list {
		if t == src {
			j := i + steps
			if j >= len(list) {
				j = len(list) - 1
			}
			return list[j]
		}
	}
	return src
}

func (b *builder) build(t *ref.Type) *dnode { return b.build2(t, false) }

func (b *builder) build2(t *ref.Type, mapKey bool) *dnode {
	idx := b.node
	b.node++
	a, c := b.next(), b.next()
	src := bridge.GoType(t, nil)
	if idx == b.incompat {
		rt := replTypes[b.repl]
		if family(rt.Kind()) == family(src.Kind()) || (mapKey && !rt.Comparable()) {
			b.skipped = true
		} else {
			// consume the subtree's node numbers so the indices stay aligned
			t.Walk(func(n *ref.Type) {
				if n != t {
					b.node++
					b.next()
					b.next()
				}
			})
			return &dnode{typ: rt, replaced: true}
		}
	}
	switch t.Kind {
	case ref.KList:
		e := b.build(t.Elem)
		return &dnode{typ: reflect.SliceOf(e.typ), children: []*dnode{e}}
	case ref.KMap:
		k := b.build2(t.Key, true)
		e := b.build(t.Elem)
		return &dnode{typ: reflect.MapOf(k.typ, e.typ), children: []*dnode{k, e}}
	case ref.KTuple, ref.KStruct:
		n := len(t.Members)
		ch := make([]*dnode, n)
		for i, m := range t.Members {
			ch[i] = b.build(m)
		}
		// permutation: rotate by a, optionally reverse (c odd)
		perm := make([]int, n)
		for i := range perm {
			j := i
			if n > 0 {
				j = (i + a) % n
				if c%2 == 1 {
					j = n - 1 - j
				}
			}
			perm[i] = j
		}
		fields := make([]reflect.StructField, n)
		for i := range t.Members {
			name := bridge.DefaultNamer(t, i)
			// case change of everything but the first letter (the field must stay exported)
			switch c / 2 {
			case 1:
				name = name[:1] + strings.ToUpper(name[1:])
			case 2:
				name = name[:1] + strings.ToLower(name[1:])
			}
			fields[perm[i]] = reflect.StructField{Name: name, Type: ch[i].typ}
		}
		if n > 1 && a%n != 0 || c%2 == 1 && n > 1 {
			b.labels["fields-permuted"] = true
		}
		if c/2 == 1 || c/2 == 2 {
			b.labels["field-case-changed"] = true
		}
		return &dnode{typ: reflect.StructOf(fields), children: ch, perm: perm}
	}
	var dt reflect.Type
	switch family(src.Kind()) {
	case "int":
		if src.Kind() >= reflect.Uint && src.Kind() <= reflect.Uint64 {
			dt = widen(unsigned, src, a)
		} else {
			dt = widen(signed, src, a)
		}
	case "float":
		dt = widen(floats, src, a)
	default:
		dt = src
	}
	if dt != src {
		b.labels["widen:"+src.Kind().String()+"->"+dt.Kind().String()] = true
	}
	return &dnode{typ: dt}
}

// expect builds the destination value that element-wise equals the source.
// reached reports whether the replaced node is visited by the value.
func expect(d *dnode, t *ref.Type, v interface{}, reached *bool) reflect.Value {
	if d.replaced {
		*reached = true
		return reflect.Zero(d.typ)
	}
	rv := reflect.New(d.typ).Elem()
	switch t.Kind {
	case ref.KList:
		l := v.(ref.List)
		rv.Set(reflect.MakeSlice(d.typ, len(l), len(l)))
		for i, e := range l {
			rv.Index(i).Set(expect(d.children[0], t.Elem, e, reached))
		}
	case ref.KMap:
		m := v.(ref.Map)
		rv.Set(reflect.MakeMapWithSize(d.typ, len(m)))
		for _, kv := range m {
			rv.SetMapIndex(expect(d.children[0], t.Key, kv.K, reached), expect(d.children[1], t.Elem, kv.V, reached))
		}
	case ref.KTuple, ref.KStruct:
		for i, m := range t.Members {
			rv.Field(d.perm[i]).Set(expect(d.children[i], m, v.(ref.Tuple)[i], reached))
		}
	default:
		rv.Set(reflect.ValueOf(v).Convert(d.typ))
	}
	return rv
}

// same compares two Go values element-wise: NaN equals NaN, nil equals empty.
func same(a, b reflect.Value) error {
	if a.Type() != b.Type() {
		return fmt.Errorf("type %v vs %v", a.Type(), b.Type())
	}
	switch a.Kind() {
	case reflect.Float32, reflect.Float64:
		x, y := a.Float(), b.Float()
		if math.IsNaN(x) && math.IsNaN(y) {
			return nil
		}
		if math.Float64bits(x) != math.Float64bits(y) {
			return fmt.Errorf("float %v vs %v", x, y)
		}
	case reflect.Slice:
		if a.Len() != b.Len() {
			return fmt.Errorf("slice length %d vs %d", a.Len(), b.Len())
		}
		for i := 0; i < a.Len(); i++ {
			if err := same(a.Index(i), b.Index(i)); err != nil {
				return fmt.Errorf("[%d]: %w", i, err)
			}
		}
	case reflect.Map:
		if a.Len() != b.Len() {
			return fmt.Errorf("map size %d vs %d", a.Len(), b.Len())
		}
		for _, k := range a.MapKeys() {
			bv := b.MapIndex(k)
			if !bv.IsValid() {
				return fmt.Errorf("key %v missing", k)
			}
			if err := same(a.MapIndex(k), bv); err != nil {
				return fmt.Errorf("[%v]: %w", k, err)
			}
		}
	case reflect.Struct:
		for i := 0; i < a.NumField(); i++ {
			if err := same(a.Field(i), b.Field(i)); err != nil {
				return fmt.Errorf(".%s: %w", a.Type().Field(i).Name, err)
			}
		}
	default:
		if a.Interface() != b.Interface() {
			return fmt.Errorf("%v vs %v", a, b)
		}
	}
	return nil
}

func convert(dst, src interface{}) (err error, panicked interface{}) {
	defer func() {
		if p := recover(); p != nil {
			panicked = p
		}
	}()
	return conversion.ConvertFrom(dst, src), nil
}

// destSig spells the signature a caller would declare for the destination
// type: members in the destination's order, field names as the destination
// declares them (the source's own spelling where the plan left the name alone,
// so that an identity plan gives back the source signature and Call2 takes its
// direct path). No signature exists for Go's int and uint, nor for a permuted
// tuple (its members have no names to be matched by).
func destSig(d *dnode, t *ref.Type) (string, bool) {
	switch t.Kind {
	case ref.KList:
		e, ok := destSig(d.children[0], t.Elem)
		return "[" + e + "]", ok
	case ref.KMap:
		k, ok1 := destSig(d.children[0], t.Key)
		e, ok2 := destSig(d.children[1], t.Elem)
		return "{" + k + e + "}", ok1 && ok2
	case ref.KTuple, ref.KStruct:
		n := len(t.Members)
		parts, names := make([]string, n), make([]string, n)
		for i, m := range t.Members {
			s, ok := destSig(d.children[i], m)
			if !ok {
				return "", false
			}
			if t.Kind == ref.KTuple && d.perm[i] != i {
				return "", false
			}
			parts[d.perm[i]] = s
			if t.Kind == ref.KStruct {
				name := d.typ.Field(d.perm[i]).Name
				if name == strings.Title(t.Fields[i]) {
					name = t.Fields[i]
				}
				names[d.perm[i]] = name
			}
		}
		out := "(" + strings.Join(parts, "") + ")"
		if t.Kind == ref.KStruct {
			out += "<" + strings.Join(append([]string{t.Name}, names...), ",") + ">"
		}
		return out, true
	}
	switch d.typ.Kind() {
	case reflect.Int8:
		return "c", true
	case reflect.Uint8:
		return "C", true
	case reflect.Int16:
		return "w", true
	case reflect.Uint16:
		return "W", true
	case reflect.Int32:
		return "i", true
	case reflect.Uint32:
		return "I", true
	case reflect.Int64:
		return "l", true
	case reflect.Uint64:
		return "L", true
	case reflect.Float32:
		return "f", true
	case reflect.Float64:
		return "d", true
	case reflect.Bool:
		return "b", true
	case reflect.String:
		return "s", true
	}
	return "", false
}

// cannedClient is a bus.Client whose every call is answered with the same bytes.
type cannedClient struct{ reply []byte }

func (c cannedClient) Call(cancel <-chan struct{}, serviceID, objectID, methodID uint32, payload []byte) ([]byte, error) {
	return c.reply, nil
}
func (c cannedClient) Subscribe(serviceID, objectID, actionID uint32) (func(), chan []byte, error) {
	return func() {}, make(chan []byte), nil
}
func (c cannedClient) OnDisconnect(cb func(error)) error  { return nil }
func (c cannedClient) State(signal string, increment int) int { return 0 }
func (c cannedClient) Channel() bus.Channel                   { return bus.NewContext(nil) }

func call2(remoteSig string, reply []byte, wantSig string, dst interface{}) (err error, p interface{}) {
	defer func() { p = recover() }()
	meta := object.MetaObject{Methods: map[uint32]object.MetaMethod{
		100: {Uid: 100, Name: "get", ParametersSignature: "()", ReturnSignature: remoteSig},
	}}
	proxy := bus.NewProxy(cannedClient{reply}, meta, 7, 1)
	return proxy.Call2("get", bus.NewParams("()"), bus.NewResponse(wantSig, dst)), nil
}

func shape(ty *ref.Type) string {
	switch {
	case ty.Contains(ref.KMap):
		return "C20:map"
	case ty.Contains(ref.KList):
		return "C20:slice"
	case ty.Contains(ref.KStruct, ref.KTuple):
		return "C20:struct"
	}
	return "C20:scalar"
}

func checkCase(c Case) error {
	ty, err := ref.ParseSig(c.Sig)
	if err != nil {
		return vt.Violationf("C20:bad-case", "sig: %v", err)
	}
	data, _ := hex.DecodeString(c.Hex)
	v, n, err := ref.Decode(ty, data)
	if err != nil || n != len(data) {
		return vt.Violationf("C20:bad-case", "reference decode: %v", err)
	}
	b := &builder{plan: c.Plan, incompat: c.Incompat, repl: c.Repl, labels: map[string]bool{}}
	dn := b.build(ty)
	src := bridge.ToGo(ty, v, nil)
	reached := false
	want := expect(dn, ty, v, &reached)
	dst := reflect.New(dn.typ)
	cls := shape(ty)

	if c.Incompat >= 0 && !b.skipped {
		if !reached {
			vt.Case(false, c.Sig+c.Hex, "incompatible-leaf-not-reached")
			return nil
		}
		err, p := convert(dst.Interface(), src.Interface())
		if p != nil {
			return vt.Violationf(cls+":incompatible-panic", "ConvertFrom(%v <- %v) panicked: %v", dn.typ, src.Type(), p)
		}
		if err == nil {
			return vt.Violationf(cls+":incompatible-accepted", "ConvertFrom(%v <- %v) converted incompatible kinds (value %s) into %v", dn.typ, src.Type(), c.Desc, dst.Elem())
		}
		vt.Case(true, "inc|"+c.Sig+"|"+dn.typ.String(), "kind=incompatible", "repl="+c.Repl)
		return nil
	}

	err, p := convert(dst.Interface(), src.Interface())
	if p != nil {
		return vt.Violationf(cls+":panic", "ConvertFrom(%v <- %v) panicked: %v", dn.typ, src.Type(), p)
	}
	if err != nil {
		return vt.Violationf(cls+":refused", "ConvertFrom(%v <- %v) refused a compatible pair (value %s): %v", dn.typ, src.Type(), c.Desc, err)
	}
	if err := same(dst.Elem(), want); err != nil {
		return vt.Violationf(cls+":value-changed", "ConvertFrom(%v <- %v) of %s: %v\n got  %v\n want %v", dn.typ, src.Type(), c.Desc, err, dst.Elem(), want)
	}
	backp := reflect.New(src.Type())
	err, p = convert(backp.Interface(), dst.Elem().Interface())
	if p != nil {
		return vt.Violationf(cls+":back-panic", "converting back (%v <- %v) panicked: %v", src.Type(), dn.typ, p)
	}
	if err != nil {
		return vt.Violationf(cls+":back-refused", "converting back (%v <- %v) failed: %v", src.Type(), dn.typ, err)
	}
	if err := same(backp.Elem(), src); err != nil {
		return vt.Violationf(cls+":back-changed", "converting %s to %v and back: %v", c.Desc, dn.typ, err)
	}
	// DecodeFrom: decode the reference bytes as the source type, convert into the destination
	dst2 := reflect.New(dn.typ)
	derr, p := func() (err error, p interface{}) {
		defer func() { p = recover() }()
		return conversion.DecodeFrom(encoding.NewDecoder(encoding.DefaultCap(), bytes.NewReader(data)), dst2.Interface(), src.Type()), nil
	}()
	if p != nil {
		return vt.Violationf(cls+":decodefrom-panic", "DecodeFrom(%v <- bytes of %v) panicked: %v", dn.typ, src.Type(), p)
	}
	if derr != nil {
		return vt.Violationf(cls+":decodefrom-refused", "DecodeFrom(%v <- bytes of %v) failed: %v", dn.typ, src.Type(), derr)
	}
	if err := same(dst2.Elem(), want); err != nil {
		return vt.Violationf(cls+":decodefrom-changed", "DecodeFrom(%v <- bytes of %v) of %s: %v", dn.typ, src.Type(), c.Desc, err)
	}

	// EncodeInto: the source value encoded as if it were of the destination type
	var ebuf bytes.Buffer
	eerr, p := func() (err error, p interface{}) {
		defer func() { p = recover() }()
		return conversion.EncodeInto(encoding.NewEncoder(encoding.DefaultCap(), &ebuf), src.Interface(), dn.typ), nil
	}()
	if p != nil {
		return vt.Violationf(cls+":encodeinto-panic", "EncodeInto(%v as %v) panicked: %v", src.Type(), dn.typ, p)
	}
	if eerr != nil {
		return vt.Violationf(cls+":encodeinto-refused", "EncodeInto(%v as %v) of %s failed: %v", src.Type(), dn.typ, c.Desc, eerr)
	}
	dst4 := reflect.New(dn.typ)
	er := bytes.NewReader(ebuf.Bytes())
	if err := encoding.NewDecoder(encoding.DefaultCap(), er).Decode(dst4.Interface()); err != nil || er.Len() != 0 {
		return vt.Violationf(cls+":encodeinto-changed", "EncodeInto(%v as %v) of %s wrote %x, which does not decode as a %v (%v, %d bytes left)", src.Type(), dn.typ, c.Desc, ebuf.Bytes(), dn.typ, err, er.Len())
	}
	if err := same(dst4.Elem(), want); err != nil {
		return vt.Violationf(cls+":encodeinto-changed", "EncodeInto(%v as %v) of %s: %v\n got  %v\n want %v", src.Type(), dn.typ, c.Desc, err, dst4.Elem(), want)
	}

	// Proxy.Call2: the caller's side of the same conversion. The remote method
	// announces the source signature and answers with the reference bytes; the
	// caller expects the destination signature and hands in a destination value.
	if dsig, ok := destSig(dn, ty); ok {
		dst3 := reflect.New(dn.typ)
		cerr, p := call2(c.Sig, data, dsig, dst3.Interface())
		if p != nil {
			return vt.Violationf(cls+":call2-panic", "Call2 (remote %s, expected %s into %v) panicked: %v", c.Sig, dsig, dn.typ, p)
		}
		if cerr != nil {
			return vt.Violationf(cls+":call2-refused", "Call2 (remote %s, expected %s into %v) failed: %v", c.Sig, dsig, dn.typ, cerr)
		}
		if err := same(dst3.Elem(), want); err != nil {
			return vt.Violationf(cls+":call2-changed", "Call2 (remote %s answering %s, expected %s into %v): %v\n got  %v\n want %v", c.Sig, c.Desc, dsig, dn.typ, err, dst3.Elem(), want)
		}
		if dsig == c.Sig {
			vt.Label("call2=same-signature")
		} else {
			vt.Label("call2=converted")
		}
	} else {
		vt.Label("call2=skipped(no signature for the destination)")
	}

	if c.Hex2 != "" {
		data2, _ := hex.DecodeString(c.Hex2)
		v2, n2, err := ref.Decode(ty, data2)
		if err != nil || n2 != len(data2) {
			return vt.Violationf("C20:bad-case", "reference decode of the second value: %v", err)
		}
		src2 := bridge.ToGo(ty, v2, nil)
		reached2 := false
		want2 := expect(dn, ty, v2, &reached2)
		kept := c.Keep && overwritesEverything(dn.typ)
		if !kept {
			emptyKeepingCapacity(dst.Elem())
		}
		err, p := convert(dst.Interface(), src2.Interface())
		if p != nil {
			return vt.Violationf(cls+":reused-destination-panic", "ConvertFrom(%v <- %v) into an emptied, previously used destination panicked: %v", dn.typ, src.Type(), p)
		}
		if err != nil {
			return vt.Violationf(cls+":reused-destination-refused", "ConvertFrom(%v <- %v) into an emptied, previously used destination failed: %v", dn.typ, src.Type(), err)
		}
		if err := same(dst.Elem(), want2); err != nil {
			return vt.Violationf(cls+":reused-destination", "ConvertFrom(%v <- %v) of %s into a destination used before (first value %s) and emptied since: %v\n got  %v\n want %v", dn.typ, src.Type(), ref.Render(v2), c.Desc, err, dst.Elem(), want2)
		}
		if kept {
			vt.Label("destination-reused-as-it-was")
		} else {
			vt.Label("destination-reused")
		}
	}
	multi := false
	var walk func(t *ref.Type, v interface{})
	walk = func(t *ref.Type, v interface{}) {
		switch t.Kind {
		case ref.KList:
			if len(v.(ref.List)) >= 2 {
				multi = true
			}
			for _, e := range v.(ref.List) {
				walk(t.Elem, e)
			}
		case ref.KMap:
			if len(v.(ref.Map)) >= 2 {
				multi = true
			}
			for _, kv := range v.(ref.Map) {
				walk(t.Elem, kv.V)
			}
		case ref.KTuple, ref.KStruct:
			for i, m := range t.Members {
				walk(m, v.(ref.Tuple)[i])
			}
		}
	}
	walk(ty, v)
	sliceOfStruct := false
	ty.Walk(func(n *ref.Type) {
		if n.Kind == ref.KList && (n.Elem.Kind == ref.KStruct || n.Elem.Kind == ref.KTuple) {
			sliceOfStruct = true
		}
	})
	nontrivial := (ty.Contains(ref.KMap) || sliceOfStruct) && multi
	labels := []string{"kind=compatible", "shape=" + strings.TrimPrefix(cls, "C20:")}
	for l := range b.labels {
		labels = append(labels, l)
	}
	vt.Case(nontrivial, c.Sig+"|"+c.Hex+"|"+dn.typ.String(), labels...)
	if nontrivial {
		vt.Sample("conversion", map[string]string{"from": src.Type().String(), "to": dn.typ.String(), "value": c.Desc})
	}
	return nil
}

func TestConversion(t *testing.T) { vt.Run(t, prop, "TestConversion", genCase, checkCase) }

func TestReplay(t *testing.T) {
	vt.Replay(t, map[string]func(json.RawMessage) error{"TestConversion": vt.Decode(checkCase)})
}
