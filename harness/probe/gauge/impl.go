package gauge

// Gauge is a GaugeImplementor written by the verification harness on the stub
// the repository's own generator produced for gauge.qi.idl (three properties
// on one object: level and count are int32, label is a string; negative
// numbers and the label "bad" are refused by the validators).

import (
	"errors"
	"sync"
	"time"

	"github.com/lugu/qiloop/bus"
)

type Impl struct {
	mu             sync.Mutex
	Helper         GaugeSignalHelper
	ValidatorDelay time.Duration
}

func (g *Impl) Activate(activation bus.Activation, helper GaugeSignalHelper) error {
	g.mu.Lock()
	g.Helper = helper
	g.mu.Unlock()
	if err := helper.UpdateLevel(0); err != nil {
		return err
	}
	if err := helper.UpdateCount(0); err != nil {
		return err
	}
	return helper.UpdateLabel("")
}

func (g *Impl) OnTerminate() {}

func (g *Impl) Poke(n int32) (int32, error) { return n + 1, nil }

func (g *Impl) wait() {
	if g.ValidatorDelay > 0 {
		time.Sleep(g.ValidatorDelay)
	}
}

func (g *Impl) OnLevelChange(v int32) error {
	g.wait()
	if v < 0 {
		return errors.New("negative level")
	}
	return nil
}

func (g *Impl) OnCountChange(v int32) error {
	g.wait()
	if v < 0 {
		return errors.New("negative count")
	}
	return nil
}

func (g *Impl) OnLabelChange(v string) error {
	g.wait()
	if v == "bad" {
		return errors.New("bad label")
	}
	return nil
}

// GetHelper returns the helper handed over at activation.
func (g *Impl) GetHelper() GaugeSignalHelper {
	g.mu.Lock()
	defer g.mu.Unlock()
	return g.Helper
}
