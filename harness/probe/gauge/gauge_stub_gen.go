package gauge

import (
	"bytes"
	"context"
	"fmt"
	bus "github.com/lugu/qiloop/bus"
	net "github.com/lugu/qiloop/bus/net"
	basic "github.com/lugu/qiloop/type/basic"
	object "github.com/lugu/qiloop/type/object"
	value "github.com/lugu/qiloop/type/value"
	"log"
)

// GaugeImplementor interface of the service implementation
type GaugeImplementor interface {
	// Activate is called before any other method.
	// It shall be used to initialize the interface.
	// activation provides runtime informations.
	// activation.Terminate() unregisters the object.
	// activation.Session can access other services.
	// helper enables signals and properties updates.
	// Properties must be initialized using helper,
	// during the Activate call.
	Activate(activation bus.Activation, helper GaugeSignalHelper) error
	OnTerminate()
	Poke(n int32) (int32, error)
	// OnLevelChange is called when the property is updated.
	// Returns an error if the property value is not allowed
	OnLevelChange(value int32) error
	// OnCountChange is called when the property is updated.
	// Returns an error if the property value is not allowed
	OnCountChange(value int32) error
	// OnLabelChange is called when the property is updated.
	// Returns an error if the property value is not allowed
	OnLabelChange(value string) error
}

// GaugeSignalHelper provided to Gauge a companion object
type GaugeSignalHelper interface {
	SignalTick(n int32) error
	UpdateLevel(value int32) error
	UpdateCount(value int32) error
	UpdateLabel(value string) error
}

// stubGauge implements server.Actor.
type stubGauge struct {
	impl      GaugeImplementor
	session   bus.Session
	service   bus.Service
	serviceID uint32
	signal    bus.SignalHandler
}

// GaugeObject returns an object using GaugeImplementor
func GaugeObject(impl GaugeImplementor) bus.Actor {
	var stb stubGauge
	stb.impl = impl
	obj := bus.NewBasicObject(&stb, stb.metaObject(), stb.onPropertyChange)
	stb.signal = obj
	return obj
}

// CreateGauge registers a new object to a service
// and returns a proxy to the newly created object
func CreateGauge(session bus.Session, service bus.Service, impl GaugeImplementor) (GaugeProxy, error) {
	obj := GaugeObject(impl)
	objectID, err := service.Add(obj)
	if err != nil {
		return nil, err
	}
	stb := &stubGauge{}
	meta := object.FullMetaObject(stb.metaObject())
	client := bus.DirectClient(obj)
	proxy := bus.NewProxy(client, meta, service.ServiceID(), objectID)
	return MakeGauge(session, proxy), nil
}
func (p *stubGauge) Activate(activation bus.Activation) error {
	p.session = activation.Session
	p.service = activation.Service
	p.serviceID = activation.ServiceID
	return p.impl.Activate(activation, p)
}
func (p *stubGauge) OnTerminate() {
	p.impl.OnTerminate()
}
func (p *stubGauge) Receive(msg *net.Message, from bus.Channel) error {
	// only call and post messages run a method
	if msg.Header.Type != net.Call && msg.Header.Type != net.Post {
		return nil
	}
	// action dispatch
	switch msg.Header.Action {
	case 100:
		return p.Poke(msg, from)
	default:
		return from.SendError(msg, bus.ErrActionNotFound)
	}
}
func (p *stubGauge) onPropertyChange(name string, data []byte) error {
	switch name {
	case "level":
		buf := bytes.NewBuffer(data)
		prop, err := basic.ReadInt32(buf)
		if err != nil {
			return fmt.Errorf("cannot read Level: %s", err)
		}
		return p.impl.OnLevelChange(prop)
	case "count":
		buf := bytes.NewBuffer(data)
		prop, err := basic.ReadInt32(buf)
		if err != nil {
			return fmt.Errorf("cannot read Count: %s", err)
		}
		return p.impl.OnCountChange(prop)
	case "label":
		buf := bytes.NewBuffer(data)
		prop, err := basic.ReadString(buf)
		if err != nil {
			return fmt.Errorf("cannot read Label: %s", err)
		}
		return p.impl.OnLabelChange(prop)
	default:
		return fmt.Errorf("unknown property %s", name)
	}
}
func (p *stubGauge) Poke(msg *net.Message, c bus.Channel) error {
	buf := bytes.NewBuffer(msg.Payload)
	n, err := basic.ReadInt32(buf)
	if err != nil {
		return c.SendError(msg, fmt.Errorf("cannot read n: %s", err))
	}
	ret, callErr := p.impl.Poke(n)

	// do not respond to post messages.
	if msg.Header.Type == net.Post {
		return nil
	}
	if callErr != nil {
		return c.SendError(msg, callErr)
	}
	var out bytes.Buffer
	errOut := basic.WriteInt32(ret, &out)
	if errOut != nil {
		return c.SendError(msg, fmt.Errorf("cannot write response: %s", errOut))
	}
	return c.SendReply(msg, out.Bytes())
}
func (p *stubGauge) SignalTick(n int32) error {
	var buf bytes.Buffer
	if err := basic.WriteInt32(n, &buf); err != nil {
		return fmt.Errorf("serialize n: %s", err)
	}
	err := p.signal.UpdateSignal(104, buf.Bytes())

	if err != nil {
		return fmt.Errorf("update SignalTick: %s", err)
	}
	return nil
}
func (p *stubGauge) UpdateLevel(value int32) error {
	var buf bytes.Buffer
	if err := basic.WriteInt32(value, &buf); err != nil {
		return fmt.Errorf("serialize value: %s", err)
	}
	err := p.signal.UpdateProperty(101, "i", buf.Bytes())

	if err != nil {
		return fmt.Errorf("update UpdateLevel: %s", err)
	}
	return nil
}
func (p *stubGauge) UpdateCount(value int32) error {
	var buf bytes.Buffer
	if err := basic.WriteInt32(value, &buf); err != nil {
		return fmt.Errorf("serialize value: %s", err)
	}
	err := p.signal.UpdateProperty(102, "i", buf.Bytes())

	if err != nil {
		return fmt.Errorf("update UpdateCount: %s", err)
	}
	return nil
}
func (p *stubGauge) UpdateLabel(value string) error {
	var buf bytes.Buffer
	if err := basic.WriteString(value, &buf); err != nil {
		return fmt.Errorf("serialize value: %s", err)
	}
	err := p.signal.UpdateProperty(103, "s", buf.Bytes())

	if err != nil {
		return fmt.Errorf("update UpdateLabel: %s", err)
	}
	return nil
}
func (p *stubGauge) metaObject() object.MetaObject {
	return object.MetaObject{
		Description: "Gauge",
		Methods: map[uint32]object.MetaMethod{100: {
			Name:                "poke",
			ParametersSignature: "(i)",
			ReturnSignature:     "i",
			Uid:                 100,
		}},
		Properties: map[uint32]object.MetaProperty{
			101: {
				Name:      "level",
				Signature: "i",
				Uid:       101,
			},
			102: {
				Name:      "count",
				Signature: "i",
				Uid:       102,
			},
			103: {
				Name:      "label",
				Signature: "s",
				Uid:       103,
			},
		},
		Signals: map[uint32]object.MetaSignal{104: {
			Name:      "tick",
			Signature: "i",
			Uid:       104,
		}},
	}
}

// GaugeProxy represents a proxy object to the service
type GaugeProxy interface {
	Poke(n int32) (int32, error)
	SubscribeTick() (unsubscribe func(), updates chan int32, err error)
	GetLevel() (int32, error)
	SetLevel(int32) error
	SubscribeLevel() (unsubscribe func(), updates chan int32, err error)
	GetCount() (int32, error)
	SetCount(int32) error
	SubscribeCount() (unsubscribe func(), updates chan int32, err error)
	GetLabel() (string, error)
	SetLabel(string) error
	SubscribeLabel() (unsubscribe func(), updates chan string, err error)
	// Generic methods shared by all objectsProxy
	bus.ObjectProxy
	// WithContext can be used cancellation and timeout
	WithContext(ctx context.Context) GaugeProxy
}

// proxyGauge implements GaugeProxy
type proxyGauge struct {
	bus.ObjectProxy
	session bus.Session
}

// MakeGauge returns a specialized proxy.
func MakeGauge(sess bus.Session, proxy bus.Proxy) GaugeProxy {
	return &proxyGauge{bus.MakeObject(proxy), sess}
}

// Gauge returns a proxy to a remote service
func Gauge(session bus.Session) (GaugeProxy, error) {
	proxy, err := session.Proxy("Gauge", 1)
	if err != nil {
		return nil, fmt.Errorf("contact service: %s", err)
	}
	return MakeGauge(session, proxy), nil
}

// WithContext bound future calls to the context deadline and cancellation
func (p *proxyGauge) WithContext(ctx context.Context) GaugeProxy {
	return MakeGauge(p.session, p.Proxy().WithContext(ctx))
}

// Poke calls the remote procedure
func (p *proxyGauge) Poke(n int32) (int32, error) {
	var ret int32
	args := bus.NewParams("(i)", n)
	resp := bus.NewResponse("i", &ret)
	err := p.Proxy().Call2("poke", args, resp)
	if err != nil {
		return ret, fmt.Errorf("call poke failed: %s", err)
	}
	return ret, nil
}

// SubscribeTick subscribe to a remote property
func (p *proxyGauge) SubscribeTick() (func(), chan int32, error) {
	signalID, err := p.Proxy().MetaObject().SignalID("tick", "i")
	if err != nil {
		return nil, nil, fmt.Errorf("%s not available: %s", "tick", err)
	}
	ch := make(chan int32)
	cancel, chPay, err := p.Proxy().SubscribeID(signalID)
	if err != nil {
		return nil, nil, fmt.Errorf("request property: %s", err)
	}
	go func() {
		for {
			payload, ok := <-chPay
			if !ok {
				// connection lost or cancellation.
				close(ch)
				return
			}
			buf := bytes.NewBuffer(payload)
			_ = buf // discard unused variable error
			e, err := basic.ReadInt32(buf)
			if err != nil {
				log.Printf("unmarshall tuple: %s", err)
				continue
			}
			ch <- e
		}
	}()
	return cancel, ch, nil
}

// GetLevel updates the property value
func (p *proxyGauge) GetLevel() (ret int32, err error) {
	name := value.String("level")
	val, err := p.Property(name)
	if err != nil {
		return ret, fmt.Errorf("get property: %s", err)
	}
	var buf bytes.Buffer
	err = val.Write(&buf)
	if err != nil {
		return ret, fmt.Errorf("read response: %s", err)
	}
	s, err := basic.ReadString(&buf)
	if err != nil {
		return ret, fmt.Errorf("read signature: %s", err)
	}
	// check the signature
	sig := "i"
	if sig != s {
		return ret, fmt.Errorf("unexpected signature: %s instead of %s",
			s, sig)
	}
	ret, err = basic.ReadInt32(&buf)
	return ret, err
}

// SetLevel updates the property value
func (p *proxyGauge) SetLevel(update int32) error {
	name := value.String("level")
	var buf bytes.Buffer
	err := basic.WriteInt32(update, &buf)
	if err != nil {
		return fmt.Errorf("marshall error: %s", err)
	}
	val := value.Opaque("i", buf.Bytes())
	return p.SetProperty(name, val)
}

// SubscribeLevel subscribe to a remote property
func (p *proxyGauge) SubscribeLevel() (func(), chan int32, error) {
	signalID, err := p.Proxy().MetaObject().PropertyID("level", "i")
	if err != nil {
		return nil, nil, fmt.Errorf("%s not available: %s", "level", err)
	}
	ch := make(chan int32)
	cancel, chPay, err := p.Proxy().SubscribeID(signalID)
	if err != nil {
		return nil, nil, fmt.Errorf("request property: %s", err)
	}
	go func() {
		for {
			payload, ok := <-chPay
			if !ok {
				// connection lost or cancellation.
				close(ch)
				return
			}
			buf := bytes.NewBuffer(payload)
			_ = buf // discard unused variable error
			e, err := basic.ReadInt32(buf)
			if err != nil {
				log.Printf("unmarshall tuple: %s", err)
				continue
			}
			ch <- e
		}
	}()
	return cancel, ch, nil
}

// GetCount updates the property value
func (p *proxyGauge) GetCount() (ret int32, err error) {
	name := value.String("count")
	val, err := p.Property(name)
	if err != nil {
		return ret, fmt.Errorf("get property: %s", err)
	}
	var buf bytes.Buffer
	err = val.Write(&buf)
	if err != nil {
		return ret, fmt.Errorf("read response: %s", err)
	}
	s, err := basic.ReadString(&buf)
	if err != nil {
		return ret, fmt.Errorf("read signature: %s", err)
	}
	// check the signature
	sig := "i"
	if sig != s {
		return ret, fmt.Errorf("unexpected signature: %s instead of %s",
			s, sig)
	}
	ret, err = basic.ReadInt32(&buf)
	return ret, err
}

// SetCount updates the property value
func (p *proxyGauge) SetCount(update int32) error {
	name := value.String("count")
	var buf bytes.Buffer
	err := basic.WriteInt32(update, &buf)
	if err != nil {
		return fmt.Errorf("marshall error: %s", err)
	}
	val := value.Opaque("i", buf.Bytes())
	return p.SetProperty(name, val)
}

// SubscribeCount subscribe to a remote property
func (p *proxyGauge) SubscribeCount() (func(), chan int32, error) {
	signalID, err := p.Proxy().MetaObject().PropertyID("count", "i")
	if err != nil {
		return nil, nil, fmt.Errorf("%s not available: %s", "count", err)
	}
	ch := make(chan int32)
	cancel, chPay, err := p.Proxy().SubscribeID(signalID)
	if err != nil {
		return nil, nil, fmt.Errorf("request property: %s", err)
	}
	go func() {
		for {
			payload, ok := <-chPay
			if !ok {
				// connection lost or cancellation.
				close(ch)
				return
			}
			buf := bytes.NewBuffer(payload)
			_ = buf // discard unused variable error
			e, err := basic.ReadInt32(buf)
			if err != nil {
				log.Printf("unmarshall tuple: %s", err)
				continue
			}
			ch <- e
		}
	}()
	return cancel, ch, nil
}

// GetLabel updates the property value
func (p *proxyGauge) GetLabel() (ret string, err error) {
	name := value.String("label")
	val, err := p.Property(name)
	if err != nil {
		return ret, fmt.Errorf("get property: %s", err)
	}
	var buf bytes.Buffer
	err = val.Write(&buf)
	if err != nil {
		return ret, fmt.Errorf("read response: %s", err)
	}
	s, err := basic.ReadString(&buf)
	if err != nil {
		return ret, fmt.Errorf("read signature: %s", err)
	}
	// check the signature
	sig := "s"
	if sig != s {
		return ret, fmt.Errorf("unexpected signature: %s instead of %s",
			s, sig)
	}
	ret, err = basic.ReadString(&buf)
	return ret, err
}

// SetLabel updates the property value
func (p *proxyGauge) SetLabel(update string) error {
	name := value.String("label")
	var buf bytes.Buffer
	err := basic.WriteString(update, &buf)
	if err != nil {
		return fmt.Errorf("marshall error: %s", err)
	}
	val := value.Opaque("s", buf.Bytes())
	return p.SetProperty(name, val)
}

// SubscribeLabel subscribe to a remote property
func (p *proxyGauge) SubscribeLabel() (func(), chan string, error) {
	signalID, err := p.Proxy().MetaObject().PropertyID("label", "s")
	if err != nil {
		return nil, nil, fmt.Errorf("%s not available: %s", "label", err)
	}
	ch := make(chan string)
	cancel, chPay, err := p.Proxy().SubscribeID(signalID)
	if err != nil {
		return nil, nil, fmt.Errorf("request property: %s", err)
	}
	go func() {
		for {
			payload, ok := <-chPay
			if !ok {
				// connection lost or cancellation.
				close(ch)
				return
			}
			buf := bytes.NewBuffer(payload)
			_ = buf // discard unused variable error
			e, err := basic.ReadString(buf)
			if err != nil {
				log.Printf("unmarshall tuple: %s", err)
				continue
			}
			ch <- e
		}
	}()
	return cancel, ch, nil
}
