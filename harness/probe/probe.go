// Package probe holds instrumented service implementations built on the
// repository's own checked-in generated stubs (examples/pong, examples/space,
// bus/directory, bus/logger). Every method body records (tag, arguments) in an
// append-only journal and returns a deterministic function of its arguments,
// so "own answer", "ran exactly once" and "ran at most once" are decidable on
// the callee side without touching the library.
package probe

import (
	"errors"
	"fmt"
	"strings"
	"sync"
	"sync/atomic"
	"time"

	"github.com/lugu/qiloop/bus"
	"github.com/lugu/qiloop/bus/directory"
	"github.com/lugu/qiloop/bus/logger"
	"github.com/lugu/qiloop/examples/pong"
	"github.com/lugu/qiloop/examples/space"
)

// Entry is one journal record.
type Entry struct {
	Seq    int64
	Object string // name of the probe object
	Method string
	Arg    string
}

// Journal is an append-only, concurrency-safe record of method executions.
type Journal struct {
	mu      sync.Mutex
	entries []Entry
	seq     int64
}

// Add appends a record.
func (j *Journal) Add(object, method, arg string) {
	j.mu.Lock()
	j.seq++
	j.entries = append(j.entries, Entry{Seq: j.seq, Object: object, Method: method, Arg: arg})
	j.mu.Unlock()
}

// Snapshot copies the journal.
func (j *Journal) Snapshot() []Entry {
	j.mu.Lock()
	defer j.mu.Unlock()
	return append([]Entry{}, j.entries...)
}

// Count returns how often (object, method, arg) ran; empty strings match all.
func (j *Journal) Count(object, method, arg string) int {
	j.mu.Lock()
	defer j.mu.Unlock()
	n := 0
	for _, e := range j.entries {
		if (object == "" || e.Object == object) && (method == "" || e.Method == method) && (arg == "" || e.Arg == arg) {
			n++
		}
	}
	return n
}

// Len is the number of records.
func (j *Journal) Len() int {
	j.mu.Lock()
	defer j.mu.Unlock()
	return len(j.entries)
}

// Pong is a PingPongImplementor. hello(tag) returns "r:"+tag; ping(tag) emits
// pong(tag). A tag of the form "...~<n>" makes the method sleep n
// microseconds first, so replies from different objects can cross.
type Pong struct {
	Name       string
	J          *Journal
	Helper     pong.PingPongSignalHelper
	Terminated int32
	Activation bus.Activation
	mu         sync.Mutex
	// TerminateDelay: how long the termination hook takes (it is counted once
	// it has completed)
	TerminateDelay time.Duration
	// ActivateDelay: how long the activation takes
	ActivateDelay time.Duration
}

func delayOf(tag string) time.Duration {
	if i := strings.LastIndexByte(tag, '~'); i >= 0 {
		var n int
		if _, err := fmt.Sscanf(tag[i+1:], "%d", &n); err == nil && n > 0 && n <= 100000 {
			return time.Duration(n) * time.Microsecond
		}
	}
	return 0
}

// Activate stores the helper.
func (p *Pong) Activate(activation bus.Activation, helper pong.PingPongSignalHelper) error {
	if p.ActivateDelay > 0 {
		time.Sleep(p.ActivateDelay)
	}
	p.mu.Lock()
	p.Helper = helper
	p.Activation = activation
	p.mu.Unlock()
	return nil
}

// OnTerminate counts terminations.
func (p *Pong) OnTerminate() {
	if p.TerminateDelay > 0 {
		time.Sleep(p.TerminateDelay)
	}
	atomic.AddInt32(&p.Terminated, 1)
}

// LibraryErrorTexts are error texts the library itself produces: a method may
// fail with the same words (it may have made a call of its own which failed so).
var LibraryErrorTexts = []string{"message dropped: consumer blocked", "Object not found", "Service not found", "EOF", "cancelled", "use of closed network connection"}

// Hello records and answers.
func (p *Pong) Hello(a string) (string, error) {
	if d := delayOf(a); d > 0 {
		time.Sleep(d)
	}
	p.J.Add(p.Name, "hello", a)
	if strings.HasPrefix(a, "fail:") {
		return "", errors.New("e:" + a)
	}
	if strings.HasPrefix(a, "failas:") && len(a) > 8 {
		// a method whose own error reads like one of the library's
		return "", errors.New(LibraryErrorTexts[int(a[7]-'0')%len(LibraryErrorTexts)])
	}
	return "r:" + a, nil
}

// Ping records and emits pong.
func (p *Pong) Ping(a string) error {
	if d := delayOf(a); d > 0 {
		time.Sleep(d)
	}
	p.J.Add(p.Name, "ping", a)
	p.mu.Lock()
	h := p.Helper
	p.mu.Unlock()
	if h != nil && !strings.HasPrefix(a, "quiet:") {
		return h.SignalPong(a)
	}
	return nil
}

// Emit emits the pong signal from the service side.
func (p *Pong) Emit(payload string) error {
	p.mu.Lock()
	h := p.Helper
	p.mu.Unlock()
	if h == nil {
		return errors.New("not activated")
	}
	return h.SignalPong(payload)
}

// NewPong builds a probe and its actor.
func NewPong(name string, j *Journal) (*Pong, bus.Actor) {
	p := &Pong{Name: name, J: j}
	return p, pong.PingPongObject(p)
}

// Bomb is a BombImplementor: property delay (int32, negative rejected),
// signal boom.
type Bomb struct {
	Name       string
	J          *Journal
	Helper     space.BombSignalHelper
	Terminated int32
	mu         sync.Mutex
	// ValidatorDelay: how long the validator takes (a validator which looks
	// something up is not instantaneous)
	ValidatorDelay time.Duration
}

// Activate initialises the property.
func (b *Bomb) Activate(activation bus.Activation, helper space.BombSignalHelper) error {
	b.mu.Lock()
	b.Helper = helper
	b.mu.Unlock()
	return helper.UpdateDelay(10)
}

// OnTerminate counts terminations.
func (b *Bomb) OnTerminate() { atomic.AddInt32(&b.Terminated, 1) }

// GetHelper returns the signal helper handed over at activation.
func (b *Bomb) GetHelper() space.BombSignalHelper {
	b.mu.Lock()
	defer b.mu.Unlock()
	return b.Helper
}

// OnDelayChange is the validator: negatives are rejected.
func (b *Bomb) OnDelayChange(duration int32) error {
	if b.ValidatorDelay > 0 {
		time.Sleep(b.ValidatorDelay)
	}
	b.J.Add(b.Name, "onDelayChange", fmt.Sprint(duration))
	if duration < 0 {
		return fmt.Errorf("duration cannot be negative (%d)", duration)
	}
	return nil
}

// NewBomb builds a probe and its actor.
func NewBomb(name string, j *Journal) (*Bomb, bus.Actor) {
	b := &Bomb{Name: name, J: j}
	return b, space.BombObject(b)
}

// Dir is a fake ServiceDirectoryImplementor that records calls (used where
// only the generated argument decoders matter).
type Dir struct {
	// embedding the interface provides the unexported method of the
	// implementor interface (never invoked: its action id is not used).
	directory.ServiceDirectoryImplementor
	J *Journal
}

func (d *Dir) Activate(activation bus.Activation, helper directory.ServiceDirectorySignalHelper) error {
	return nil
}
func (d *Dir) OnTerminate() {}
func (d *Dir) Service(name string) (directory.ServiceInfo, error) {
	d.J.Add("dir", "service", name)
	return directory.ServiceInfo{Name: name}, nil
}
func (d *Dir) Services() ([]directory.ServiceInfo, error) {
	d.J.Add("dir", "services", "")
	return nil, nil
}
func (d *Dir) RegisterService(info directory.ServiceInfo) (uint32, error) {
	d.J.Add("dir", "registerService", info.Name)
	return 7, nil
}
func (d *Dir) UnregisterService(serviceID uint32) error {
	d.J.Add("dir", "unregisterService", fmt.Sprint(serviceID))
	return nil
}
func (d *Dir) ServiceReady(serviceID uint32) error {
	d.J.Add("dir", "serviceReady", fmt.Sprint(serviceID))
	return nil
}
func (d *Dir) UpdateServiceInfo(info directory.ServiceInfo) error {
	d.J.Add("dir", "updateServiceInfo", info.Name)
	return nil
}
func (d *Dir) MachineId() (string, error) { return "m", nil }

// LogProv is a LogProviderImplementor recording calls.
type LogProv struct{ J *Journal }

func (l *LogProv) Activate(activation bus.Activation, helper logger.LogProviderSignalHelper) error {
	return nil
}
func (l *LogProv) OnTerminate() {}
func (l *LogProv) SetVerbosity(level logger.LogLevel) error {
	l.J.Add("logprov", "setVerbosity", fmt.Sprint(level))
	return nil
}
func (l *LogProv) SetCategory(category string, level logger.LogLevel) error {
	l.J.Add("logprov", "setCategory", category)
	return nil
}
func (l *LogProv) ClearAndSet(filters map[string]logger.LogLevel) error {
	l.J.Add("logprov", "clearAndSet", fmt.Sprint(len(filters)))
	return nil
}
