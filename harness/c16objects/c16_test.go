// Package c16objects decides C16: removed objects are unreachable and
// terminated exactly once.
package c16objects

import (
	"encoding/binary"
	"encoding/json"
	"fmt"
	"io"
	"log"
	"sync"
	"sync/atomic"
	"testing"
	"time"

	"github.com/lugu/qiloop/bus"
	"github.com/lugu/qiloop/bus/session"
	"github.com/lugu/qiloop/examples/pong"
	"pgregory.net/rapid"
	"verif/harness/netkit"
	"verif/harness/probe"
	"verif/harness/vt"
)

const prop = "C16"

func TestMain(m *testing.M) {
	log.SetOutput(io.Discard)
	vt.Main(m)
}

// Op is one step.
type Op struct {
	Kind   string `json:"kind"`   // add | remove | terminate | call | rawcall | subscribe | removebad | race | busyremove
	Target int    `json:"target"` // index (modulo) into the objects added so far
}

type Case struct {
	Ops []Op `json:"ops"`
	// MainEnd: how the service's main object (id 1, the one given to
	// NewService) ends after the script: "" (it stays), "remove", "terminate".
	MainEnd string `json:"main_end,omitempty"`
	// HookUS: how long the termination hook of the objects takes (microseconds)
	HookUS int `json:"hook_us,omitempty"`
}

func genCase(t *rapid.T) Case {
	n := rapid.IntRange(3, 30).Draw(t, "n")
	c := Case{Ops: []Op{{Kind: "add"}, {Kind: "add"}}}
	for i := 0; i < n; i++ {
		c.Ops = append(c.Ops, Op{
			Kind:   rapid.SampledFrom([]string{"add", "add", "remove", "remove", "terminate", "terminate", "call", "call", "call", "rawcall", "rawcall", "subscribe", "removebad", "race", "race", "busyremove", "subrace", "readd", "readd", "slowadd", "slowadd"}).Draw(t, "kind"),
			Target: rapid.IntRange(0, 12).Draw(t, "target"),
		})
	}
	c.MainEnd = rapid.SampledFrom([]string{"", "", "remove", "terminate"}).Draw(t, "mainend")
	c.HookUS = rapid.SampledFrom([]int{0, 0, 100, 1000, 3000}).Draw(t, "hookus")
	return c
}

type obj struct {
	id      uint32
	name    string
	probe   *probe.Pong
	proxy   pong.PingPongProxy
	generic bus.ObjectProxy
	live    bool
	subs    []chan string
	// subscriptions to another signal of the same object (the generic
	// traceObject signal) held through the same proxy and connection
	sideSubs []chan []byte
	// actor: what was given to Service.Add. An object which is gone may be added
	// again (op "readd"): a second life under a new identifier, a second obj
	// here; baseTerm is how often its termination hook had run before this life
	actor    bus.Actor
	baseTerm int32
	readded  bool // this life is over and the actor lives again elsewhere
}

const bound = 10 * time.Second

// slowActor is an actor whose activation lasts until the harness lets it end.
type slowActor struct {
	bus.Actor
	entered chan struct{}
	gate    chan struct{}
	once    sync.Once
}

func (s *slowActor) Activate(a bus.Activation) error {
	first := false
	s.once.Do(func() { first = true })
	if first {
		close(s.entered)
		<-s.gate
	}
	return s.Actor.Activate(a)
}

const traceSig = "(IiIm(ll)<timeval,tv_sec,tv_usec>llII)<EventTrace,id,kind,slotId,arguments,timestamp,userUsTime,systemUsTime,callerContext,calleeContext>"

func waitClosed(ch chan string, d time.Duration) bool {
	deadline := time.After(d)
	for {
		select {
		case _, ok := <-ch:
			if !ok {
				return true
			}
		case <-deadline:
			return false
		}
	}
}

func checkCase(c Case) error {
	vt.Journal(prop, "TestObjects", "C16:process-died", c)
	defer vt.JournalDone(prop, "TestObjects")
	env, err := netkit.StartServer(bus.Yes{})
	if err != nil {
		return vt.Violationf("C16:setup", "server: %v", err)
	}
	defer env.Close()
	svc, mainProbe, err := env.AddPong("Svc")
	if err != nil {
		return vt.Violationf("C16:setup", "service: %v", err)
	}
	sess, err := session.NewAuthSession(env.Addr, "u", "t")
	if err != nil {
		return vt.Violationf("C16:setup", "session: %v", err)
	}
	defer sess.Terminate()
	mainProxyRaw, err := sess.Proxy("Svc", 1)
	if err != nil {
		return vt.Violationf("C16:setup", "proxy: %v", err)
	}
	mainProxy := pong.MakePingPong(sess, mainProxyRaw)
	raw, err := netkit.Dial(env.Addr)
	if err != nil {
		return vt.Violationf("C16:setup", "raw client: %v", err)
	}
	if !raw.Authenticate("u", "t", bound) {
		return vt.Violationf("C16:authenticate-hangs", "a fresh connection got no answer to authenticate within %v\n%s", bound, vt.BlockedInLibrary())
	}
	defer raw.Close()

	var objs []*obj
	seq := 0
	callsAfterRemoval, liveAtThatTime := 0, 0
	liveCount := func() int {
		n := 0
		for _, o := range objs {
			if o.live {
				n++
			}
		}
		return n
	}
	// afterRemoval checks the clauses that hold once an object is gone.
	afterRemoval := func(o *obj, how string) error {
		deadline := time.Now().Add(bound)
		for atomic.LoadInt32(&o.probe.Terminated) <= o.baseTerm && time.Now().Before(deadline) {
			time.Sleep(100 * time.Microsecond)
		}
		if n := atomic.LoadInt32(&o.probe.Terminated) - o.baseTerm; n != 1 {
			return vt.Violationf("C16:terminate-count", "object %d removed by %s: termination hook ran %d times (earlier lives of the same object: %d)", o.id, how, n, o.baseTerm)
		}
		for i, ch := range o.subs {
			if !waitClosed(ch, bound) {
				return vt.Violationf("C16:subscriber-not-told", "object %d removed by %s: subscriber %d channel still open after %v", o.id, how, i, bound)
			}
		}
		o.subs = nil
		for i, ch := range o.sideSubs {
			deadline := time.After(bound)
			for open := true; open; {
				select {
				case _, ok := <-ch:
					open = ok
				case <-deadline:
					return vt.Violationf("C16:subscriber-not-told", "object %d removed by %s: the channel of subscriber %d of its other signal (traceObject), held through the same connection as a subscriber of pong, is still open after %v", o.id, how, i, bound)
				}
			}
		}
		o.sideSubs = nil
		return nil
	}
	call := func(o *obj, viaRaw bool, step int) error {
		seq++
		tag := fmt.Sprintf("t%d", seq)
		before := env.Journal.Count(o.name, "", "")
		var res string
		var cerr error
		if viaRaw {
			f, ok := raw.CallWait(svc.ServiceID(), o.id, 100, netkit.StringPayload(tag), bound)
			if !ok {
				return vt.Violationf("C16:call-hangs", "step %d: raw call to object %d (live=%v) got no answer within %v\n%s", step, o.id, o.live, bound, vt.BlockedInLibrary())
			}
			if f.Type == netkit.Reply {
				res, _ = netkit.DecodeString(f.Payload)
			} else {
				cerr = fmt.Errorf("error frame: %s", netkit.ErrorText(f.Payload))
			}
		} else {
			done := make(chan struct{})
			go func() { res, cerr = o.proxy.Hello(tag); close(done) }()
			select {
			case <-done:
			case <-time.After(bound):
				return vt.Violationf("C16:call-hangs", "step %d: call to object %d (live=%v) did not return within %v\n%s", step, o.id, o.live, bound, vt.BlockedInLibrary())
			}
		}
		after := env.Journal.Count(o.name, "", "")
		if o.live {
			if cerr != nil || res != "r:"+tag {
				return vt.Violationf("C16:live-object-unreachable", "step %d: live object %d answered (%q, %v) to %s", step, o.id, res, cerr, tag)
			}
			if after != before+1 {
				return vt.Violationf("C16:execution-count", "step %d: call to live object %d ran %d times", step, o.id, after-before)
			}
			return nil
		}
		callsAfterRemoval++
		if liveCount() >= 2 {
			liveAtThatTime++
		}
		if cerr == nil {
			return vt.Violationf("C16:removed-object-answers", "step %d: object %d was removed but answered %q to a later call (raw=%v)", step, o.id, res, viaRaw)
		}
		if after != before {
			return vt.Violationf("C16:removed-object-invoked", "step %d: object %d was removed but a later call invoked it (%d new journal entries)", step, o.id, after-before)
		}
		return nil
	}

	for i, op := range c.Ops {
		var o *obj
		if len(objs) > 0 {
			o = objs[op.Target%len(objs)]
		}
		switch op.Kind {
		case "slowadd":
			// an object whose activation takes its time is being added; meanwhile a
			// live object is removed and another one added: afterwards all three
			// are what they should be
			name := fmt.Sprintf("o%d", len(objs))
			p, inner := probe.NewPong(name, env.Journal)
			p.TerminateDelay = time.Duration(c.HookUS) * time.Microsecond
			slow := &slowActor{Actor: inner, entered: make(chan struct{}), gate: make(chan struct{})}
			type addRes struct {
				id  uint32
				err error
			}
			added := make(chan addRes, 1)
			go func() { id, err := svc.Add(slow); added <- addRes{id, err} }()
			select {
			case <-slow.entered:
			case <-time.After(bound):
				return vt.Violationf("C16:add-error", "step %d: Add did not activate the object within %v", i, bound)
			}
			var victim *obj
			for _, x := range objs {
				if x.live {
					victim = x
				}
			}
			if victim != nil && op.Target%3 != 0 {
				if err := svc.Remove(victim.id); err != nil {
					close(slow.gate)
					return vt.Violationf("C16:remove-error", "step %d: Remove(%d) of a live object (while another object is being activated) failed: %v", i, victim.id, err)
				}
				victim.live = false
			} else {
				victim = nil
			}
			var meanwhile *obj
			if op.Target%2 == 0 {
				n2 := fmt.Sprintf("o%dm", len(objs))
				p2, a2 := probe.NewPong(n2, env.Journal)
				p2.TerminateDelay = time.Duration(c.HookUS) * time.Microsecond
				id2, err := svc.Add(a2)
				if err != nil {
					close(slow.gate)
					return vt.Violationf("C16:add-error", "step %d: Add (while another object is being activated) failed: %v", i, err)
				}
				meanwhile = &obj{id: id2, name: n2, probe: p2, live: true, actor: a2}
			}
			close(slow.gate)
			var r addRes
			select {
			case r = <-added:
			case <-time.After(bound):
				return vt.Violationf("C16:add-error", "step %d: Add did not return within %v after the activation ended", i, bound)
			}
			if r.err != nil {
				return vt.Violationf("C16:add-error", "step %d: Add of an object with a slow activation failed: %v", i, r.err)
			}
			fresh := []*obj{{id: r.id, name: name, probe: p, live: true, actor: slow}}
			if meanwhile != nil {
				fresh = append(fresh, meanwhile)
			}
			for _, n := range fresh {
				px, err := sess.Proxy("Svc", n.id)
				if err != nil {
					return vt.Violationf("C16:new-object-unreachable", "step %d: Proxy(Svc,%d) of an object added around a slow activation: %v", i, n.id, err)
				}
				n.proxy, n.generic = pong.MakePingPong(sess, px), bus.MakeObject(px)
				objs = append(objs, n)
				if err := call(n, false, i); err != nil {
					return err
				}
			}
			if victim != nil {
				if err := afterRemoval(victim, "Remove during another object's activation"); err != nil {
					return err
				}
				if err := call(victim, true, i); err != nil {
					return err
				}
			}
			vt.Label("slow-activation")
		case "add", "readd":
			name := fmt.Sprintf("o%d", len(objs))
			p, actor := probe.NewPong(name, env.Journal)
			p.TerminateDelay = time.Duration(c.HookUS) * time.Microsecond
			base := int32(0)
			if op.Kind == "readd" {
				// an object which is gone is added again: the same actor, a new life
				var gone []*obj
				for _, x := range objs {
					if !x.live && !x.readded {
						gone = append(gone, x)
					}
				}
				if len(gone) == 0 {
					continue
				}
				prev := gone[op.Target%len(gone)]
				prev.readded = true
				name, p, actor = prev.name, prev.probe, prev.actor
				base = atomic.LoadInt32(&p.Terminated)
				vt.Label("object-added-again")
			}
			id, err := svc.Add(actor)
			if err != nil {
				return vt.Violationf("C16:add-error", "step %d: Add failed: %v", i, err)
			}
			if id == 1 {
				return vt.Violationf("C16:id-collision", "step %d: Add returned id 1, the service's main object", i)
			}
			for _, other := range objs {
				if other.live && other.id == id {
					return vt.Violationf("C16:id-collision", "step %d: Add returned id %d which belongs to a live object", i, id)
				}
			}
			px, err := sess.Proxy("Svc", id)
			if err != nil {
				return vt.Violationf("C16:new-object-unreachable", "step %d: Proxy(Svc,%d) of a freshly added object: %v", i, id, err)
			}
			objs = append(objs, &obj{id: id, name: name, probe: p, proxy: pong.MakePingPong(sess, px), generic: bus.MakeObject(px), live: true, actor: actor, baseTerm: base})
		case "remove":
			if o == nil {
				continue
			}
			err := svc.Remove(o.id)
			if o.live {
				if err != nil {
					return vt.Violationf("C16:remove-error", "step %d: Remove(%d) of a live object failed: %v", i, o.id, err)
				}
				o.live = false
				if n := atomic.LoadInt32(&o.probe.Terminated) - o.baseTerm; n != 1 {
					return vt.Violationf("C16:hook-not-run-at-return", "step %d: Remove(%d) returned and the termination hook had completed %d times", i, o.id, n)
				}
				if err := afterRemoval(o, "Remove"); err != nil {
					return err
				}
			} else if err == nil {
				// an id can be handed out again after removal: only an error if no live object has it
				reused := false
				for _, other := range objs {
					if other != o && other.live && other.id == o.id {
						reused = true
						other.live = false
					}
				}
				if !reused {
					return vt.Violationf("C16:double-remove-accepted", "step %d: Remove(%d) of an already removed object returned no error", i, o.id)
				}
			}
		case "removebad":
			id := uint32(0x7ffffff0 + op.Target)
			clash := false
			for _, other := range objs {
				if other.id == id {
					clash = true
				}
			}
			if !clash {
				if err := svc.Remove(id); err == nil {
					return vt.Violationf("C16:remove-unknown-accepted", "step %d: Remove(%d) of an id that never existed returned no error", i, id)
				}
			}
		case "terminate":
			if o == nil {
				continue
			}
			done := make(chan error, 1)
			go func() { done <- o.generic.Terminate(o.id) }()
			var terr error
			select {
			case terr = <-done:
			case <-time.After(bound):
				return vt.Violationf("C16:terminate-hangs", "step %d: terminate(%d) did not return within %v", i, o.id, bound)
			}
			if o.live {
				if terr != nil {
					return vt.Violationf("C16:terminate-error", "step %d: terminate of live object %d failed: %v", i, o.id, terr)
				}
				o.live = false
				// the acknowledgement is how the caller learns that the object has
				// terminated: by then the hook has run
				if n := atomic.LoadInt32(&o.probe.Terminated) - o.baseTerm; n != 1 {
					return vt.Violationf("C16:hook-not-run-at-acknowledgement", "step %d: terminate(%d) was acknowledged and the termination hook had completed %d times", i, o.id, n)
				}
				if err := afterRemoval(o, "terminate()"); err != nil {
					return err
				}
			} else if terr == nil {
				return vt.Violationf("C16:removed-object-answers", "step %d: terminate on removed object %d returned success", i, o.id)
			}
		case "call", "rawcall":
			if o == nil {
				continue
			}
			if err := call(o, op.Kind == "rawcall", i); err != nil {
				return err
			}
		case "subscribe":
			if o == nil || !o.live {
				continue
			}
			_, ch, err := o.proxy.SubscribePong()
			if err != nil {
				return vt.Violationf("C16:subscribe-error", "step %d: subscribe to live object %d: %v", i, o.id, err)
			}
			o.subs = append(o.subs, ch)
			// every other time: one more subscription, to another signal of the
			// same object, through the same proxy (each of them is told when the
			// object goes)
			if (op.Target+i)%2 == 0 && len(o.sideSubs) == 0 {
				if sid, err := o.proxy.Proxy().MetaObject().SignalID("traceObject", traceSig); err == nil {
					_, sch, err := o.proxy.Proxy().SubscribeID(sid)
					if err != nil {
						return vt.Violationf("C16:subscribe-error", "step %d: subscribe to traceObject of live object %d: %v", i, o.id, err)
					}
					o.sideSubs = append(o.sideSubs, sch)
					vt.Label("two-signals-of-one-object-subscribed")
				} else {
					vt.Label("no-traceObject-signal-in-meta-object")
				}
			}
		case "subrace":
			if o == nil || !o.live {
				continue
			}
			// Twenty registrations of another connection come first in the
			// object's table, two subscribers (whose channels are watched) last;
			// while the object is removed, three more connections register as fast
			// as they can. Whatever becomes of the late ones, the subscribers that
			// were there before are told.
			filler, err := netkit.Dial(env.Addr)
			if err != nil || !filler.Authenticate("u", "t", bound) {
				return vt.Violationf("C16:setup", "raw client: %v", err)
			}
			defer filler.Close()
			regPayload := func(id uint64) []byte {
				b := binary.LittleEndian.AppendUint32(nil, o.id)
				b = binary.LittleEndian.AppendUint32(b, 102)
				return binary.LittleEndian.AppendUint64(b, id)
			}
			for k := 0; k < 20; k++ {
				if f, ok := filler.CallWait(svc.ServiceID(), o.id, 0, regPayload(uint64(870000+100*i+k)), bound); !ok || f.Type != netkit.Reply {
					return vt.Violationf("C16:subscribe-error", "step %d: registerEvent on live object %d: %v", i, o.id, f)
				}
			}
			for k := 0; k < 2; k++ {
				_, ch, err := o.proxy.SubscribePong()
				if err != nil {
					return vt.Violationf("C16:subscribe-error", "step %d: subscribe to live object %d: %v", i, o.id, err)
				}
				o.subs = append(o.subs, ch)
			}
			var late []*netkit.RawClient
			for k := 0; k < 4; k++ {
				x, err := netkit.Dial(env.Addr)
				if err != nil || !x.Authenticate("u", "t", bound) {
					return vt.Violationf("C16:setup", "raw client: %v", err)
				}
				defer x.Close()
				late = append(late, x)
			}
			var rw sync.WaitGroup
			for k, x := range late {
				rw.Add(1)
				go func(k int, x *netkit.RawClient) {
					defer rw.Done()
					for n := 0; n < 8; n++ {
						x.Send(netkit.Frame{Type: netkit.Call, ID: x.NextID(), Service: svc.ServiceID(), Object: o.id, Action: 0, Payload: regPayload(uint64(880000 + 1000*i + 10*k + n))})
					}
				}(k, x)
			}
			removed := make(chan error, 1)
			go func() {
				time.Sleep(time.Duration(20*(op.Target%6)) * time.Microsecond)
				removed <- svc.Remove(o.id)
			}()
			rw.Wait()
			select {
			case err := <-removed:
				if err != nil {
					return vt.Violationf("C16:remove-error", "step %d: Remove(%d) of a live object failed: %v", i, o.id, err)
				}
			case <-time.After(bound):
				return vt.Violationf("C16:remove-hangs", "step %d: Remove(%d) while registrations arrived did not return within %v\n%s", i, o.id, bound, vt.BlockedInLibrary())
			}
			o.live = false
			if err := afterRemoval(o, "Remove while registrations were queued"); err != nil {
				return err
			}
			// the connections whose registrations raced with the removal are
			// still served: a call to the object which is gone is answered (with
			// an error), and the main object answers them
			for k, x := range late {
				f, ok := x.CallWait(svc.ServiceID(), o.id, 100, netkit.StringPayload("late"), bound)
				if !ok {
					return vt.Violationf("C16:removed-object-call-unanswered", "step %d: connection %d, which was registering for a signal of object %d when it was removed, gets no answer to a call addressed to it", i, k, o.id)
				}
				if f.Type == netkit.Reply {
					return vt.Violationf("C16:removed-object-answers", "step %d: removed object %d answered a call", i, o.id)
				}
				// (the main object lives until the script is over)
				if f, ok := x.CallWait(svc.ServiceID(), 1, 100, netkit.StringPayload("late-main"), bound); !ok || f.Type != netkit.Reply {
					return vt.Violationf("C16:other-object-affected", "step %d: connection %d, which was registering for a signal of object %d when it was removed, is no longer served by the main object of the service: %v", i, k, o.id, f)
				}
			}
			vt.Label("subrace-step")
		case "busyremove":
			if o == nil || !o.live {
				continue
			}
			// the object is busy with a slow call, its own terminate request is
			// queued behind it, and three other connections keep calling it: some
			// of their calls wait for room in its mailbox when it goes away.
			// Every call gets exactly one answer, the hook runs once, nobody dies.
			type sent struct {
				conn *netkit.RawClient
				from int
				id   uint32
			}
			var calls []sent
			send := func(conn *netkit.RawClient, action uint32, payload []byte) {
				id := conn.NextID()
				calls = append(calls, sent{conn, len(conn.Frames()), id})
				conn.Send(netkit.Frame{Type: netkit.Call, ID: id, Service: svc.ServiceID(), Object: o.id, Action: action, Payload: payload})
			}
			var extra []*netkit.RawClient
			for k := 0; k < 3; k++ {
				x, err := netkit.Dial(env.Addr)
				if err != nil || !x.Authenticate("u", "t", bound) {
					return vt.Violationf("C16:setup", "raw client: %v", err)
				}
				defer x.Close()
				extra = append(extra, x)
			}
			send(raw, 100, netkit.StringPayload("busy~4000"))
			send(raw, 3, binary.LittleEndian.AppendUint32(nil, o.id))
			for k := 0; k < 6; k++ {
				for xi, x := range extra {
					send(x, 100, netkit.StringPayload(fmt.Sprintf("late%d-%d", xi, k)))
				}
			}
			for _, cl := range calls {
				if _, _, ok := cl.conn.WaitFrame(cl.from, func(f netkit.Frame) bool { return f.ID == cl.id && (f.Type == netkit.Reply || f.Type == netkit.Error) }, bound); !ok {
					return vt.Violationf("C16:no-answer:removal-under-load", "step %d: a call (id %d) to object %d, terminated while busy with calls queued, got no answer within %v", i, cl.id, o.id, bound)
				}
			}
			o.live = false
			if err := afterRemoval(o, "terminate() while busy"); err != nil {
				return err
			}
			vt.Label("busyremove-step")
		case "race":
			if o == nil || !o.live {
				continue
			}
			// two removals and a caller race on one live object
			var wg sync.WaitGroup
			var okCount int32
			// the removers leave together: two owner-side Remove calls and, every
			// other time, the remote terminate() of a client
			gate := make(chan struct{})
			// the owner-side removers meet at a spinning barrier so that they
			// enter Remove within a few nanoseconds of each other
			removers := 2 + op.Target%3
			var arrived int32
			for k := 0; k < removers; k++ {
				wg.Add(1)
				go func() {
					defer wg.Done()
					<-gate
					atomic.AddInt32(&arrived, 1)
					for spin := 0; atomic.LoadInt32(&arrived) < int32(removers) && spin < 1000000; spin++ {
					}
					if svc.Remove(o.id) == nil {
						atomic.AddInt32(&okCount, 1)
					}
				}()
			}
			if op.Target%2 == 1 {
				wg.Add(1)
				go func() {
					defer wg.Done()
					<-gate
					// its result is not judged: a terminate() that finds the object
					// already gone may still be acknowledged; the termination hook
					// count below is what the property fixes
					o.generic.Terminate(o.id)
				}()
			}
			var res string
			var cerr error
			wg.Add(1)
			go func() { defer wg.Done(); <-gate; res, cerr = o.proxy.Hello("race") }()
			close(gate)
			finished := make(chan struct{})
			go func() { wg.Wait(); close(finished) }()
			select {
			case <-finished:
			case <-time.After(bound):
				return vt.Violationf("C16:race-hangs", "step %d: concurrent Remove x2 + call on object %d did not finish within %v", i, o.id, bound)
			}
			if okCount > 1 || (okCount == 0 && op.Target%2 == 0) {
				return vt.Violationf("C16:concurrent-remove", "step %d: %d of the concurrent Remove calls on object %d succeeded (2..4 Remove calls, a remote terminate every other time): exactly one removal may succeed", i, okCount, o.id)
			}
			if cerr == nil && res != "r:race" {
				return vt.Violationf("C16:wrong-answer", "step %d: racing call answered %q", i, res)
			}
			o.live = false
			if err := afterRemoval(o, "concurrent Remove"); err != nil {
				return err
			}
			vt.Label("race-step")
		}
		// removing one object never affects the others: the main object answers
		if i%4 == 3 {
			seq++
			tag := fmt.Sprintf("m%d", seq)
			if res, err := mainProxy.Hello(tag); err != nil || res != "r:"+tag {
				return vt.Violationf("C16:other-object-affected", "step %d: the service's main object answered (%q, %v)", i, res, err)
			}
		}
	}
	// quiescence: every live object still answers, every removed one was terminated once
	for i, o := range objs {
		if o.live {
			if err := call(o, i%2 == 0, len(c.Ops)); err != nil {
				return err
			}
		}
		// the termination hook of an actor has run once per life which is over
		ended := int32(0)
		for _, x := range objs {
			if x.probe == o.probe && !x.live {
				ended++
			}
		}
		if n := atomic.LoadInt32(&o.probe.Terminated); n != ended {
			return vt.Violationf("C16:terminate-count", "object %d (live=%v): its termination hook ran %d times, %d of its lives are over", o.id, o.live, n, ended)
		}
	}
	// the main object is an object like the others: it can be removed too
	if c.MainEnd != "" {
		main := &obj{id: 1, name: "Svc", probe: mainProbe, proxy: mainProxy, generic: bus.MakeObject(mainProxyRaw), live: true}
		if c.MainEnd == "remove" {
			if err := svc.Remove(1); err != nil {
				return vt.Violationf("C16:remove-error", "Remove(1) of the live main object failed: %v", err)
			}
		} else {
			done := make(chan error, 1)
			go func() { done <- main.generic.Terminate(1) }()
			select {
			case err := <-done:
				if err != nil {
					return vt.Violationf("C16:terminate-error", "terminate of the live main object failed: %v", err)
				}
			case <-time.After(bound):
				return vt.Violationf("C16:terminate-hangs", "terminate(1) did not return within %v", bound)
			}
		}
		main.live = false
		if err := afterRemoval(main, c.MainEnd+" of the main object"); err != nil {
			return err
		}
		for k := 0; k < 2; k++ {
			if err := call(main, k == 1, len(c.Ops)+k); err != nil {
				return err
			}
		}
		// the others are not affected
		for i, o := range objs {
			if o.live {
				if err := call(o, i%2 == 1, len(c.Ops)); err != nil {
					return err
				}
			}
		}
		vt.Label("main-object-" + c.MainEnd)
	}
	nontrivial := callsAfterRemoval > 0 && liveAtThatTime > 0
	labels := []string{fmt.Sprintf("objects=%d", len(objs))}
	if callsAfterRemoval > 0 {
		labels = append(labels, "call-after-removal")
	}
	key, _ := json.Marshal(c)
	vt.Case(nontrivial, string(key), labels...)
	if nontrivial {
		vt.Sample("script", c.Ops)
	}
	return nil
}

func TestObjects(t *testing.T) { vt.Run(t, prop, "TestObjects", genCase, checkCase) }

func TestReplay(t *testing.T) {
	vt.Replay(t, map[string]func(json.RawMessage) error{"TestObjects": vt.Decode(checkCase), "TestReference": vt.Decode(checkRef)})
}
