package c16objects

// Client side objects: the same property for bus.NewServiceReference, the
// Service a proxy hands out to host objects on the caller's own connection
// (bus/service_reference.go). The two ends of a net.Pipe stand for the
// connection; a bus.Client on the far end calls the objects.

import (
	"encoding/json"
	"fmt"
	"sync"
	"sync/atomic"
	"testing"
	"time"

	"github.com/lugu/qiloop/bus"
	qnet "github.com/lugu/qiloop/bus/net"
	"pgregory.net/rapid"
	"verif/harness/vt"
)

// RefOp is one step on a service reference.
type RefOp struct {
	Kind   string `json:"kind"`   // add | remove | selfterm | call | churn | unchurn | race
	Target int    `json:"target"` // index (modulo) into everything added so far
}

type RefCase struct {
	Ops []RefOp `json:"ops"`
}

func genRef(t *rapid.T) RefCase {
	n := rapid.IntRange(3, 30).Draw(t, "n")
	c := RefCase{Ops: []RefOp{{Kind: "add"}}}
	kinds := []string{"add", "add", "remove", "remove", "selfterm", "call", "call", "call", "churn", "unchurn", "race"}
	for i := 0; i < n; i++ {
		c.Ops = append(c.Ops, RefOp{Kind: rapid.SampledFrom(kinds).Draw(t, "kind"), Target: rapid.IntRange(0, 12).Draw(t, "target")})
	}
	return c
}

type refActor struct {
	mu         sync.Mutex
	activation bus.Activation
	activated  int32
	terminated int32
	received   int32
}

func (a *refActor) Receive(m *qnet.Message, from bus.Channel) error {
	atomic.AddInt32(&a.received, 1)
	return from.SendReply(m, append([]byte{}, m.Payload...))
}

func (a *refActor) Activate(activation bus.Activation) error {
	a.mu.Lock()
	a.activation = activation
	a.mu.Unlock()
	atomic.AddInt32(&a.activated, 1)
	return nil
}

func (a *refActor) OnTerminate() { atomic.AddInt32(&a.terminated, 1) }

type refObj struct {
	id    uint32
	actor *refActor
	live  bool
}

const refService = 7

func checkRef(c RefCase) error {
	vt.Journal(prop, "TestReference", "C16:reference:process-died", c)
	defer vt.JournalDone(prop, "TestReference")
	local, remote := qnet.Pipe()
	defer local.Close()
	defer remote.Close()
	svc := bus.NewServiceReference(nil, local, refService)
	peer := bus.NewClient(bus.NewContext(remote))

	// the anchor is never removed: it is the "other" object of every removal
	// and the barrier behind which earlier messages have been dispatched
	anchor := &refObj{actor: &refActor{}, live: true}
	id, err := svc.Add(anchor.actor)
	if err != nil {
		return vt.Violationf("C16:reference:add-error", "Add(anchor): %v", err)
	}
	anchor.id = id
	objs := []*refObj{}
	var churned []int
	seq := byte(0)
	manual := uint32(0)

	callLive := func(o *refObj, step int, why string) error {
		seq++
		before := atomic.LoadInt32(&o.actor.received)
		type res struct {
			b   []byte
			err error
		}
		done := make(chan res, 1)
		go func() { b, err := peer.Call(nil, refService, o.id, 100, []byte{seq}); done <- res{b, err} }()
		select {
		case r := <-done:
			if r.err != nil || len(r.b) != 1 || r.b[0] != seq {
				return vt.Violationf("C16:reference:live-object-unreachable", "step %d (%s): live object %d answered (%v, %v)", step, why, o.id, r.b, r.err)
			}
		case <-time.After(bound):
			return vt.Violationf("C16:reference:live-object-unreachable", "step %d (%s): live object %d did not answer within %v", step, why, o.id, bound)
		}
		if n := atomic.LoadInt32(&o.actor.received) - before; n != 1 {
			return vt.Violationf("C16:reference:execution-count", "step %d (%s): call to live object %d ran %d times", step, why, o.id, n)
		}
		return nil
	}
	// hooks checks the termination counters of every object against the model.
	hooks := func(step int, why string) error {
		for _, o := range append([]*refObj{anchor}, objs...) {
			n := atomic.LoadInt32(&o.actor.terminated)
			want := int32(1)
			if o.live {
				want = 0
			}
			if n != want {
				return vt.Violationf("C16:reference:terminate-count", "step %d (%s): object %d (live=%v): termination hook ran %d times, expected %d", step, why, o.id, o.live, n, want)
			}
		}
		return nil
	}
	removedCalls, doubleRemovals, slotReuse := 0, 0, 0
	removedSinceChurn := false

	for i, op := range c.Ops {
		var o *refObj
		if len(objs) > 0 {
			o = objs[op.Target%len(objs)]
		}
		switch op.Kind {
		case "add":
			a := &refActor{}
			id, err := svc.Add(a)
			if err != nil {
				return vt.Violationf("C16:reference:add-error", "step %d: Add failed: %v", i, err)
			}
			if atomic.LoadInt32(&a.activated) != 1 {
				return vt.Violationf("C16:reference:not-activated", "step %d: Add did not activate the object exactly once", i)
			}
			for _, other := range append([]*refObj{anchor}, objs...) {
				if other.id == id {
					return vt.Violationf("C16:reference:id-collision", "step %d: Add returned id %d, already given to another object (live=%v)", i, id, other.live)
				}
			}
			n := &refObj{id: id, actor: a, live: true}
			objs = append(objs, n)
			if removedSinceChurn {
				slotReuse++
				removedSinceChurn = false
			}
			if err := callLive(n, i, "fresh object"); err != nil {
				return err
			}
		case "remove", "selfterm":
			if o == nil {
				continue
			}
			var err error
			if op.Kind == "remove" {
				err = svc.Remove(o.id)
			} else {
				o.actor.mu.Lock()
				term := o.actor.activation.Terminate
				o.actor.mu.Unlock()
				term() // no result: the model decides what must have happened
			}
			if o.live {
				if err != nil {
					return vt.Violationf("C16:reference:remove-error", "step %d: %s of live object %d failed: %v", i, op.Kind, o.id, err)
				}
				o.live = false
				removedSinceChurn = true
			} else {
				doubleRemovals++
				if op.Kind == "remove" && err == nil {
					return vt.Violationf("C16:reference:double-remove-accepted", "step %d: Remove(%d) of an already removed object returned no error", i, o.id)
				}
			}
		case "call":
			if o == nil {
				continue
			}
			if o.live {
				if err := callLive(o, i, "call"); err != nil {
					return err
				}
				continue
			}
			// a removed object: the message must not reach it. It is followed on
			// the same connection by a call to the anchor, whose answer shows
			// that the first one has been dispatched.
			removedCalls++
			before := atomic.LoadInt32(&o.actor.received)
			manual++
			mid := 0xF0000000 + manual
			answers := make(chan *qnet.Message, 4)
			hid := remote.MakeHandler(func(h *qnet.Header) (bool, bool) { return h.ID == mid, true }, answers, nil)
			if err := remote.Send(qnet.NewMessage(qnet.NewHeader(qnet.Call, refService, o.id, 100, mid), []byte{0xEE})); err != nil {
				return vt.Violationf("C16:reference:setup", "step %d: send: %v", i, err)
			}
			if err := callLive(anchor, i, "barrier after a call to a removed object"); err != nil {
				return err
			}
			var answer *qnet.Message
			select {
			case answer = <-answers:
			default:
				// no answer at all: see the known finding
				if vt.Known("C16:reference:removed-object-call-unanswered") {
					vt.Excluded("C16:reference:removed-object-call-unanswered")
				} else {
					select {
					case answer = <-answers:
					case <-time.After(2 * time.Second):
						return vt.Violationf("C16:reference:removed-object-call-unanswered", "step %d: a call to the removed client side object %d got no answer (not even an error) within 2s although a later call to another object was answered", i, o.id)
					}
				}
			}
			remote.RemoveHandler(hid)
			if answer != nil && answer.Header.Type != qnet.Error {
				return vt.Violationf("C16:reference:removed-object-answers", "step %d: object %d was removed but a later call was answered with a message of type %d", i, o.id, answer.Header.Type)
			}
			if n := atomic.LoadInt32(&o.actor.received) - before; n != 0 {
				return vt.Violationf("C16:reference:removed-object-invoked", "step %d: object %d was removed but a later call invoked it", i, o.id)
			}
		case "churn":
			// something else registers a handler on the same connection
			q := make(chan *qnet.Message, 1)
			churned = append(churned, local.MakeHandler(func(h *qnet.Header) (bool, bool) { return false, true }, q, nil))
			if removedSinceChurn {
				slotReuse++
				removedSinceChurn = false
			}
		case "unchurn":
			if len(churned) > 0 {
				k := op.Target % len(churned)
				local.RemoveHandler(churned[k])
				churned = append(churned[:k], churned[k+1:]...)
				removedSinceChurn = true
			}
		case "race":
			// two different live objects are removed at the same time
			var live []*refObj
			for _, x := range objs {
				if x.live {
					live = append(live, x)
				}
			}
			if len(live) < 2 {
				continue
			}
			x, y := live[op.Target%len(live)], live[(op.Target+1)%len(live)]
			var wg sync.WaitGroup
			errs := make([]error, 2)
			for k, z := range []*refObj{x, y} {
				wg.Add(1)
				go func(k int, z *refObj) { defer wg.Done(); errs[k] = svc.Remove(z.id) }(k, z)
			}
			wg.Wait()
			if errs[0] != nil || errs[1] != nil {
				return vt.Violationf("C16:reference:remove-error", "step %d: concurrent Remove of two live objects %d and %d: %v, %v", i, x.id, y.id, errs[0], errs[1])
			}
			x.live, y.live = false, false
			removedSinceChurn = true
			vt.Label("race-step")
		}
		if err := hooks(i, op.Kind); err != nil {
			return err
		}
		// removing one object never affects the others
		if op.Kind != "call" && op.Kind != "add" {
			for _, x := range append([]*refObj{anchor}, objs...) {
				if x.live {
					if err := callLive(x, i, "after "+op.Kind); err != nil {
						return err
					}
				}
			}
		}
	}
	nontrivial := (removedCalls > 0 || doubleRemovals > 0) && slotReuse > 0
	labels := []string{"mode=service-reference"}
	if slotReuse > 0 {
		labels = append(labels, "handler-registered-after-a-removal")
	}
	if doubleRemovals > 0 {
		labels = append(labels, "double-removal")
	}
	key, _ := json.Marshal(c)
	vt.Case(nontrivial, "ref"+string(key), labels...)
	if nontrivial {
		vt.Sample("reference-script", c.Ops)
	}
	return nil
}

func TestReference(t *testing.T) { vt.Run(t, prop, "TestReference", genRef, checkRef) }

var _ = fmt.Sprintf
