package c04calls

// The same property for the two other places where the library runs methods:
// objects hosted on the caller's own side of a connection (Proxy.ProxyService /
// bus.NewServiceReference, bus/service_reference.go) and objects reached
// through bus.DirectClient. The far end of a pipe sends bursts of frames back
// to back; every call gets exactly one answer, its own, and runs once.

import (
	"encoding/json"
	"fmt"
	"strings"
	"sync"
	"testing"
	"time"

	"github.com/lugu/qiloop/bus"
	qnet "github.com/lugu/qiloop/bus/net"
	"pgregory.net/rapid"
	"verif/harness/netkit"
	"verif/harness/probe"
	"verif/harness/vt"
)

// CoFrame is one frame of a burst.
type CoFrame struct {
	Type    uint8 `json:"type"` // 1 call, 4 post, others: must not run anything
	Obj     int   `json:"obj"`
	DelayUS int   `json:"delay_us"`
}

type CoCase struct {
	Mode    string      `json:"mode"` // reference | direct
	Objects int         `json:"objects"`
	Bursts  [][]CoFrame `json:"bursts"` // frames of a burst are sent back to back; the next burst when the first is answered
	Senders int         `json:"senders"` // direct mode: goroutines calling at once
}

func genCo(t *rapid.T) CoCase {
	c := CoCase{Mode: rapid.SampledFrom([]string{"reference", "reference", "direct"}).Draw(t, "mode"), Objects: rapid.IntRange(1, 3).Draw(t, "objects")}
	c.Senders = rapid.IntRange(2, 8).Draw(t, "senders")
	nb := rapid.IntRange(1, 4).Draw(t, "bursts")
	for b := 0; b < nb; b++ {
		n := rapid.IntRange(1, 8).Draw(t, "frames") // inside the ten-message queue of an object
		var burst []CoFrame
		for i := 0; i < n; i++ {
			burst = append(burst, CoFrame{
				Type:    rapid.SampledFrom([]uint8{1, 1, 1, 1, 4, 2, 3, 5, 6, 7, 8}).Draw(t, "type"),
				Obj:     rapid.IntRange(0, 2).Draw(t, "obj"),
				DelayUS: rapid.SampledFrom([]int{0, 0, 50, 300}).Draw(t, "delay"),
			})
		}
		c.Bursts = append(c.Bursts, burst)
	}
	return c
}

func checkCo(c CoCase) error {
	vt.Journal(prop, "TestClientObjects", "C04:clientobj:process-died", c)
	defer vt.JournalDone(prop, "TestClientObjects")
	j := &probe.Journal{}
	if c.Mode == "direct" {
		return checkDirect(c, j)
	}
	local, remote := qnet.Pipe()
	defer local.Close()
	defer remote.Close()
	const service = 7
	svc := bus.NewServiceReference(nil, local, service)
	var ids []uint32
	for o := 0; o < c.Objects; o++ {
		_, actor := probe.NewPong(fmt.Sprintf("co%d", o), j)
		id, err := svc.Add(actor)
		if err != nil {
			return vt.Violationf("C04:setup", "Add: %v", err)
		}
		ids = append(ids, id)
	}
	in := make(chan *qnet.Message, 4096)
	remote.MakeHandler(func(h *qnet.Header) (bool, bool) { return true, true }, in, nil)
	var mu sync.Mutex
	answers := map[uint32][]*qnet.Message{}
	go func() {
		for m := range in {
			mu.Lock()
			answers[m.Header.ID] = append(answers[m.Header.ID], m)
			mu.Unlock()
		}
	}()
	count := func(id uint32) int {
		mu.Lock()
		defer mu.Unlock()
		return len(answers[id])
	}
	type sent struct {
		id  uint32
		typ uint8
		tag string
	}
	var all []sent
	next := uint32(100)
	calls, concurrent := 0, 0
	for bi, burst := range c.Bursts {
		var thisBurst []sent
		for fi, f := range burst {
			next++
			tag := fmt.Sprintf("quiet:b%df%d~%d", bi, fi, f.DelayUS)
			action := uint32(100)
			if f.Type == netkit.Post {
				action = 101
			}
			s := sent{id: next, typ: f.Type, tag: tag}
			thisBurst = append(thisBurst, s)
			msg := qnet.NewMessage(qnet.NewHeader(f.Type, service, ids[f.Obj%len(ids)], action, next), netkit.StringPayload(tag))
			if err := remote.Send(msg); err != nil {
				return vt.Violationf("C04:setup", "send: %v", err)
			}
		}
		all = append(all, thisBurst...)
		ncalls := 0
		for _, s := range thisBurst {
			if s.typ == netkit.Call {
				ncalls++
			}
		}
		calls += ncalls
		if ncalls >= 2 {
			concurrent++
		}
		// every call of the burst is answered
		deadline := time.Now().Add(bound)
		for _, s := range thisBurst {
			if s.typ != netkit.Call {
				continue
			}
			for count(s.id) == 0 {
				if time.Now().After(deadline) {
					return vt.Violationf("C04:clientobj:no-outcome", "client side object: call %d (%s), sent in a burst of %d frames, got no answer within %v", s.id, s.tag, len(thisBurst), bound)
				}
				time.Sleep(200 * time.Microsecond)
			}
		}
	}
	// barrier: one more call per object, then a pause for stragglers
	for _, id := range ids {
		next++
		remote.Send(qnet.NewMessage(qnet.NewHeader(qnet.Call, service, id, 100, next), netkit.StringPayload("barrier")))
		for deadline := time.Now().Add(bound); count(next) == 0 && time.Now().Before(deadline); {
			time.Sleep(200 * time.Microsecond)
		}
	}
	time.Sleep(2 * time.Millisecond)
	mu.Lock()
	defer mu.Unlock()
	for _, s := range all {
		got := answers[s.id]
		n := j.Count("", "", s.tag)
		switch s.typ {
		case netkit.Call:
			if len(got) != 1 {
				return vt.Violationf("C04:clientobj:answer-count", "client side object: call %d (%s) got %d answers", s.id, s.tag, len(got))
			}
			if got[0].Header.Type == qnet.Error && strings.Contains(netkit.ErrorText(got[0].Payload), "consumer blocked") {
				if n > 1 {
					return vt.Violationf("C04:clientobj:execution-count", "refused call %s ran %d times", s.tag, n)
				}
				continue
			}
			if got[0].Header.Type != qnet.Reply {
				return vt.Violationf("C04:clientobj:call-failed", "client side object: call %s answered with a message of type %d", s.tag, got[0].Header.Type)
			}
			if r, _ := netkit.DecodeString(got[0].Payload); r != "r:"+s.tag {
				return vt.Violationf("C04:clientobj:wrong-answer", "client side object: call %s answered %q: another call's answer", s.tag, r)
			}
			if n != 1 {
				return vt.Violationf("C04:clientobj:execution-count", "client side object: successful call %s ran %d times", s.tag, n)
			}
		case netkit.Post:
			if len(got) != 0 {
				return vt.Violationf("C04:clientobj:post-answered", "client side object: post %s was answered (%d frames)", s.tag, len(got))
			}
			if n > 1 {
				return vt.Violationf("C04:clientobj:execution-count", "client side object: post %s ran %d times", s.tag, n)
			}
		default:
			if n != 0 {
				return vt.Violationf("C04:clientobj:non-call-executed", "client side object: a frame of type %d ran the method (%d times)", s.typ, n)
			}
		}
	}
	key, _ := json.Marshal(c)
	vt.Case(concurrent > 0, "co"+string(key), "mode=reference", fmt.Sprintf("objects=%d", c.Objects))
	if concurrent > 0 {
		vt.Sample("client-object-bursts", c)
	}
	return nil
}

func checkDirect(c CoCase, j *probe.Journal) error {
	_, actor := probe.NewPong("direct", j)
	clt := bus.DirectClient(actor)
	type res struct {
		tag string
		b   []byte
		err error
	}
	out := make(chan res, 64)
	var wg sync.WaitGroup
	n := 0
	for g := 0; g < c.Senders; g++ {
		for k := 0; k < 1+len(c.Bursts); k++ {
			n++
		}
		wg.Add(1)
		go func(g int) {
			defer wg.Done()
			for k := 0; k < 1+len(c.Bursts); k++ {
				tag := fmt.Sprintf("quiet:d%dk%d~%d", g, k, 50*(g%3))
				b, err := clt.Call(nil, 1, 1, 100, netkit.StringPayload(tag))
				out <- res{tag, b, err}
			}
		}(g)
	}
	done := make(chan struct{})
	go func() { wg.Wait(); close(done) }()
	select {
	case <-done:
	case <-time.After(bound):
		return vt.Violationf("C04:clientobj:no-outcome", "DirectClient: %d goroutines calling at once: a call did not return within %v", c.Senders, bound)
	}
	close(out)
	for r := range out {
		cnt := j.Count("", "", r.tag)
		if r.err != nil {
			if strings.Contains(r.err.Error(), "consumer blocked") && cnt <= 1 {
				continue
			}
			return vt.Violationf("C04:clientobj:call-failed", "DirectClient: call %s failed: %v", r.tag, r.err)
		}
		if s, _ := netkit.DecodeString(r.b); s != "r:"+r.tag {
			return vt.Violationf("C04:clientobj:wrong-answer", "DirectClient: call %s answered %q", r.tag, s)
		}
		if cnt != 1 {
			return vt.Violationf("C04:clientobj:execution-count", "DirectClient: call %s ran %d times", r.tag, cnt)
		}
	}
	key, _ := json.Marshal(c)
	vt.Case(true, "direct"+string(key), "mode=direct", fmt.Sprintf("senders=%d", c.Senders))
	return nil
}

func TestClientObjects(t *testing.T) { vt.Run(t, prop, "TestClientObjects", genCo, checkCo) }
