package c04calls

// Calls cancelled at about the moment their answer arrives, beside plain calls
// of other goroutines through the same session: whatever the cancelled calls
// release, the plain ones (never cancelled, healthy connection) get their own
// answers, each after exactly one execution.

import (
	"context"
	"encoding/json"
	"fmt"
	"strings"
	"sync"
	"sync/atomic"
	"testing"
	"time"

	"github.com/lugu/qiloop/bus"
	"github.com/lugu/qiloop/bus/session"
	"github.com/lugu/qiloop/examples/pong"
	"pgregory.net/rapid"
	"verif/harness/netkit"
	"verif/harness/vt"
)

type StormCase struct {
	Plain      int   `json:"plain"`      // goroutines making plain calls
	Cancellers int   `json:"cancellers"` // goroutines cancelling their calls
	Calls      int   `json:"calls"`      // calls per goroutine
	CancelUS   []int `json:"cancel_us"`  // call k of a canceller is cancelled after CancelUS[k % len] microseconds
	CalleeUS   int   `json:"callee_us"`  // how long the method takes
	Local      bool  `json:"local"`      // through the server's local session
}

func genStorm(t *rapid.T) StormCase {
	c := StormCase{Plain: rapid.IntRange(1, 4).Draw(t, "plain"), Cancellers: rapid.IntRange(1, 4).Draw(t, "cancellers"),
		Calls: rapid.IntRange(10, 60).Draw(t, "calls"), CalleeUS: rapid.SampledFrom([]int{0, 0, 20, 100}).Draw(t, "callee"), Local: rapid.IntRange(0, 3).Draw(t, "local") == 0}
	n := rapid.IntRange(1, 4).Draw(t, "ncancel")
	for i := 0; i < n; i++ {
		c.CancelUS = append(c.CancelUS, rapid.SampledFrom([]int{0, 5, 20, 60, 150}).Draw(t, "cancelus"))
	}
	return c
}

func checkStorm(c StormCase) error {
	vt.Journal(prop, "TestCancelStorm", "C04:process-died", c)
	defer vt.JournalDone(prop, "TestCancelStorm")
	env, err := netkit.StartServer(bus.Yes{})
	if err != nil {
		return vt.Violationf("C04:setup", "server: %v", err)
	}
	defer env.Close()
	if _, _, err := env.AddPong("Svc"); err != nil {
		return vt.Violationf("C04:setup", "service: %v", err)
	}
	var sess bus.Session
	if c.Local {
		sess = env.Server.Session()
	} else {
		if sess, err = session.NewAuthSession(env.Addr, "u", "t"); err != nil {
			return vt.Violationf("C04:setup", "session: %v", err)
		}
		defer sess.Terminate()
	}
	raw, err := sess.Proxy("Svc", 1)
	if err != nil {
		return vt.Violationf("C04:setup", "proxy: %v", err)
	}
	px := pong.MakePingPong(sess, raw)
	dropsBefore := drops.Count()
	var wg sync.WaitGroup
	var first atomic.Value
	var hung int32
	for g := 0; g < c.Plain+c.Cancellers; g++ {
		wg.Add(1)
		go func(g int) {
			defer wg.Done()
			for k := 0; k < c.Calls; k++ {
				tag := fmt.Sprintf("quiet:g%dk%d~%d", g, k, c.CalleeUS)
				p := px
				var cancel context.CancelFunc
				if g >= c.Plain {
					var ctx context.Context
					ctx, cancel = context.WithCancel(context.Background())
					p = px.WithContext(ctx)
					d := time.Duration(c.CancelUS[k%len(c.CancelUS)]) * time.Microsecond
					go func() { time.Sleep(d); cancel() }()
				}
				type res struct {
					s   string
					err error
				}
				done := make(chan res, 1)
				go func() { s, err := p.Hello(tag); done <- res{s, err} }()
				select {
				case r := <-done:
					if g < c.Plain {
						if r.err != nil && strings.Contains(r.err.Error(), "consumer blocked") {
							continue // refused by the server's load shedding: an allowed outcome
						}
						if r.err != nil {
							first.CompareAndSwap(nil, vt.Violationf("C04:call-failed:beside-cancelled-calls", "a plain call (%s) of goroutine %d failed on a healthy connection while %d other goroutines cancelled their calls at about the time the answers arrive: %v", tag, g, c.Cancellers, r.err))
							return
						}
						if r.s != "r:"+tag {
							first.CompareAndSwap(nil, vt.Violationf("C04:wrong-answer", "plain call %s returned %q", tag, r.s))
							return
						}
					} else if r.err == nil && r.s != "r:"+tag {
						first.CompareAndSwap(nil, vt.Violationf("C04:wrong-answer", "cancelled call %s returned success with %q", tag, r.s))
						return
					}
				case <-time.After(bound):
					atomic.StoreInt32(&hung, 1)
					return
				}
				if cancel != nil {
					cancel()
				}
			}
		}(g)
	}
	wg.Wait()
	if atomic.LoadInt32(&hung) == 1 {
		return vt.Violationf("C04:call-hangs", "a call did not return within %v (beside cancelled calls)", bound)
	}
	if v := first.Load(); v != nil {
		return v.(*vt.Violation)
	}
	// executions: every plain call ran once (unless refused), every cancelled one at most once
	time.Sleep(2 * time.Millisecond)
	for g := 0; g < c.Plain+c.Cancellers; g++ {
		for k := 0; k < c.Calls; k++ {
			tag := fmt.Sprintf("quiet:g%dk%d~%d", g, k, c.CalleeUS)
			n := env.Journal.Count("", "", tag)
			if n > 1 || (g < c.Plain && n != 1 && drops.Count() == dropsBefore) {
				return vt.Violationf("C04:execution-count", "call %s (cancelled: %v) ran %d times", tag, g >= c.Plain, n)
			}
		}
	}
	key, _ := json.Marshal(c)
	vt.Case(true, "storm"+string(key), "mode=cancel-storm", fmt.Sprintf("plain=%d", c.Plain), fmt.Sprintf("cancellers=%d", c.Cancellers))
	return nil
}

func TestCancelStorm(t *testing.T) { vt.Run(t, prop, "TestCancelStorm", genStorm, checkStorm) }
