// Package c04calls decides C04: every call gets exactly one answer - its own -
// and runs its method exactly once; messages of other kinds never run a
// method.
package c04calls

import (
	"context"
	"encoding/binary"
	"encoding/json"
	"fmt"
	"log"
	"strings"
	"sync"
	"sync/atomic"
	"testing"
	"time"

	"github.com/lugu/qiloop/bus"
	qnet "github.com/lugu/qiloop/bus/net"
	"github.com/lugu/qiloop/bus/session"
	"github.com/lugu/qiloop/examples/pong"
	"pgregory.net/rapid"
	"verif/harness/hio"
	"verif/harness/netkit"
	"verif/harness/ref"
	"verif/harness/probe"
	"verif/harness/vt"
)

const prop = "C04"

// drops counts the messages the library reports as dropped (queue overflow).
var drops = &netkit.DropLog{}

func TestMain(m *testing.M) {
	log.SetOutput(drops)
	vt.Main(m)
}

// Op is one step of a caller goroutine.
type Op struct {
	Kind     string `json:"kind"`   // call | failcall | post | cancel
	Target   int    `json:"target"` // index into the flattened object list (modulo)
	DelayUS  int    `json:"delay_us"`
	CancelUS int    `json:"cancel_us,omitempty"` // cancel: when the context is cancelled
	Pad      int    `json:"pad,omitempty"`       // the argument is padded to this many bytes (frames larger than common buffers)
}

// Case is one run.
type Case struct {
	Objects  []int    `json:"objects"`  // objects per service
	Sessions [][][]Op `json:"sessions"` // session -> goroutine -> ops
	RawTypes []uint8  `json:"raw_types"`
	Procs    int      `json:"procs,omitempty"`
	// RemoveUnderLoad: at the end an added object is terminated while it is
	// busy and has calls queued (see checkCase).
	RemoveUnderLoad bool `json:"remove_under_load,omitempty"`
	// Observed: objects (indices into the flattened object list) whose
	// statistics (1) or tracing (2) are switched on before the calls start.
	Observed map[int]int `json:"observed,omitempty"`
	// Overload: at the end forty goroutines call one slow method through one
	// session at once: more than the server queues for a connection. Every
	// call still gets exactly one outcome: its own result, or the server's
	// refusal (in which case it did not run).
	Overload bool `json:"overload,omitempty"`
	// Local: sessions (by index) which are the server's own local session
	// (Server.Session(): in-process clients, one per proxy, no socket) instead of
	// a network session; there every caller goroutine gets proxies of its own.
	Local []int `json:"local,omitempty"`
	// Oversized: at the end, through a session of its own, one call whose
	// argument is just inside the size limit of a message and whose result is
	// just outside: whatever becomes of it, the call gets one outcome
	Oversized bool `json:"oversized,omitempty"`
}

func genCase(t *rapid.T) Case {
	var c Case
	ns := rapid.IntRange(1, 3).Draw(t, "services")
	for i := 0; i < ns; i++ {
		c.Objects = append(c.Objects, rapid.IntRange(1, 3).Draw(t, "objects"))
	}
	nsess := rapid.IntRange(1, 3).Draw(t, "sessions")
	for s := 0; s < nsess; s++ {
		ng := rapid.IntRange(1, 6).Draw(t, "goroutines")
		var gs [][]Op
		for g := 0; g < ng; g++ {
			n := rapid.IntRange(1, 6).Draw(t, "ops")
			var ops []Op
			for i := 0; i < n; i++ {
				op := Op{
					Kind:    rapid.SampledFrom([]string{"call", "call", "call", "failcall", "post", "cancel"}).Draw(t, "kind"),
					Target:  rapid.IntRange(0, 8).Draw(t, "target"),
					DelayUS: rapid.SampledFrom([]int{0, 0, 20, 100, 300}).Draw(t, "delay"),
				}
				if rapid.IntRange(0, 5).Draw(t, "padded") == 0 {
					op.Pad = rapid.SampledFrom([]int{2100, 4100, 9000, 70000}).Draw(t, "pad")
				}
				if op.Kind == "cancel" {
					op.DelayUS = rapid.SampledFrom([]int{100, 300, 1000}).Draw(t, "cdelay")
					op.CancelUS = rapid.SampledFrom([]int{0, 50, 200, 2000}).Draw(t, "cancelat")
				}
				ops = append(ops, op)
			}
			gs = append(gs, ops)
		}
		c.Sessions = append(c.Sessions, gs)
	}
	for s := 0; s < nsess; s++ {
		if rapid.IntRange(0, 3).Draw(t, "local") == 0 {
			c.Local = append(c.Local, s)
		}
	}
	c.Oversized = rapid.IntRange(0, 24).Draw(t, "oversized") == 0
	c.RemoveUnderLoad = rapid.Bool().Draw(t, "removeunderload")
	c.Overload = rapid.IntRange(0, 3).Draw(t, "overload") == 0
	if rapid.IntRange(0, 2).Draw(t, "observe") == 0 {
		c.Observed = map[int]int{}
		for k := rapid.IntRange(1, 3).Draw(t, "nobserved"); k > 0; k-- {
			c.Observed[rapid.IntRange(0, 8).Draw(t, "observed")] = rapid.IntRange(1, 2).Draw(t, "how")
		}
	}
	c.RawTypes = []uint8{netkit.Reply, netkit.Error, netkit.Event, netkit.Capability, netkit.Cancel, netkit.Cancelled}
	return c
}

type target struct {
	service  string
	svcID    uint32
	objectID uint32
	probe    *probe.Pong
}

type callRec struct {
	tag        string
	kind       string
	session    int
	start, end int64
	ok         bool
	result     string
	err        error
	returned   int32
}

const bound = 20 * time.Second

var clock int64

func tick() int64 { return atomic.AddInt64(&clock, 1) }

func checkCase(c Case) (verr error) {
	vt.Journal(prop, "TestCalls", "C04:process-died", c)
	defer vt.JournalDone(prop, "TestCalls")
	env, err := netkit.StartServer(bus.Yes{})
	if err != nil {
		return vt.Violationf("C04:setup", "server: %v", err)
	}
	defer env.Close()
	var targets []target
	for si, n := range c.Objects {
		name := fmt.Sprintf("Svc%d", si)
		svc, p, err := env.AddPong(name)
		if err != nil {
			return vt.Violationf("C04:setup", "service: %v", err)
		}
		targets = append(targets, target{service: name, svcID: svc.ServiceID(), objectID: 1, probe: p})
		for o := 1; o < n; o++ {
			id, p, err := env.AddPongObject(svc, fmt.Sprintf("%s.o%d", name, o))
			if err != nil {
				return vt.Violationf("C04:setup", "object: %v", err)
			}
			targets = append(targets, target{service: name, svcID: svc.ServiceID(), objectID: id, probe: p})
		}
	}
	// one raw connection for posts and foreign frames
	raw, err := netkit.Dial(env.Addr)
	if err != nil || !raw.Authenticate("u", "t", bound) {
		return vt.Violationf("C04:setup", "raw client: %v", err)
	}
	defer raw.Close()

	for idx, how := range c.Observed {
		tg := targets[idx%len(targets)]
		action := uint32(81) // enableStats
		if how == 2 {
			action = 85 // enableTrace
		}
		if f, ok := raw.CallWait(tg.svcID, tg.objectID, action, []byte{1}, bound); !ok || f.Type != netkit.Reply {
			return vt.Violationf("C04:setup", "enabling statistics/tracing on object %d: %v", tg.objectID, f)
		}
		vt.Label("object-with-stats-or-trace")
	}
	dropsBefore := drops.Count()
	var recsMu sync.Mutex
	var recs []*callRec
	var postIDs sync.Map // message id -> tag
	var wg sync.WaitGroup
	var hung int32
	for si, gs := range c.Sessions {
		isLocal := false
		for _, l := range c.Local {
			if l == si {
				isLocal = true
			}
		}
		var sess bus.Session
		if isLocal {
			sess = env.Server.Session()
			vt.Label("local-session")
		} else {
			sess, err = session.NewAuthSession(env.Addr, "u", "t")
			if err != nil {
				return vt.Violationf("C04:setup", "session: %v", err)
			}
			defer sess.Terminate()
		}
		mkProxies := func() ([]pong.PingPongProxy, error) {
			proxies := make([]pong.PingPongProxy, len(targets))
			for i, tg := range targets {
				px, err := sess.Proxy(tg.service, tg.objectID)
				if err != nil {
					return nil, vt.Violationf("C04:proxy", "Proxy(%s,%d): %v", tg.service, tg.objectID, err)
				}
				proxies[i] = pong.MakePingPong(sess, px)
			}
			return proxies, nil
		}
		sessProxies, err := mkProxies()
		if err != nil {
			return err
		}
		for gi, ops := range gs {
			proxies := sessProxies
			if isLocal && gi > 0 {
				if proxies, err = mkProxies(); err != nil {
					return err
				}
			}
			wg.Add(1)
			go func(si, gi int, ops []Op) {
				defer wg.Done()
				for oi, op := range ops {
					ti := op.Target % len(targets)
					tg := targets[ti]
					pad := ""
					if op.Pad > 0 {
						pad = "_" + strings.Repeat("p", op.Pad)
					}
					tag := fmt.Sprintf("s%dg%dn%d%s~%d", si, gi, oi, pad, op.DelayUS)
					rec := &callRec{tag: tag, kind: op.Kind, session: si}
					recsMu.Lock()
					recs = append(recs, rec)
					recsMu.Unlock()
					switch op.Kind {
					case "post":
						id := raw.NextID()
						postIDs.Store(id, tag)
						rec.start = tick()
						raw.Send(netkit.Frame{Type: netkit.Post, ID: id, Service: tg.svcID, Object: tg.objectID, Action: 101, Payload: netkit.StringPayload("quiet:" + tag)})
						rec.tag = "quiet:" + tag
						rec.end = tick()
						atomic.AddInt32(&rec.returned, 1)
					default:
						px := proxies[ti]
						arg := tag
						if op.Kind == "failcall" {
							arg = "fail:" + tag
							if op.DelayUS%7 != 0 || op.Pad > 0 {
								// the method fails with words of the library's own
								arg = fmt.Sprintf("failas:%d:%s", (op.Target+op.DelayUS)%len(probe.LibraryErrorTexts), tag)
							}
							rec.tag = arg
						}
						var cancel context.CancelFunc
						if op.Kind == "cancel" {
							var ctx context.Context
							ctx, cancel = context.WithCancel(context.Background())
							px = px.WithContext(ctx)
							go func(d int) {
								time.Sleep(time.Duration(d) * time.Microsecond)
								cancel()
							}(op.CancelUS)
						}
						done := make(chan struct{})
						go func() {
							rec.start = tick()
							res, err := px.Hello(arg)
							rec.end = tick()
							rec.result, rec.err, rec.ok = res, err, err == nil
							atomic.AddInt32(&rec.returned, 1)
							close(done)
						}()
						select {
						case <-done:
						case <-time.After(bound):
							atomic.StoreInt32(&hung, 1)
							return
						}
						if cancel != nil {
							cancel()
						}
					}
				}
			}(si, gi, ops)
		}
	}
	wg.Wait()
	if atomic.LoadInt32(&hung) == 1 {
		return vt.Violationf("C04:call-hangs", "a call did not return within %v", bound)
	}
	// Load shedding: when more messages are in flight on a connection than its
	// queues hold, the server refuses a call with the error "message dropped:
	// consumer blocked" (and drops posts). That is an outcome the property
	// allows (exactly one outcome, the method run at most once); what it does
	// not allow is any other failure on a healthy connection.
	refused := func(r *callRec) bool {
		return r.err != nil && strings.Contains(r.err.Error(), "consumer blocked")
	}
	shedCalls := 0
	// raw phase: frames of every non-call type addressed to a live method
	rawTags := map[string]uint8{}
	foreign := map[uint32]string{}
	for i, typ := range c.RawTypes {
		tg := targets[i%len(targets)]
		tag := fmt.Sprintf("raw-type-%d", typ)
		rawTags[tag] = typ
		raw.Send(netkit.Frame{Type: typ, ID: raw.NextID(), Service: tg.svcID, Object: tg.objectID, Action: 100, Payload: netkit.StringPayload(tag)})
		// the same kind of frame for the authentication service (a method written
		// by hand, authenticate, with credentials it accepts). Capability and
		// cancel frames are left out: exchanging capability maps is what the
		// protocol has the first kind for, and what the service makes of them is
		// not this property's business. A reply, error, event or cancelled frame
		// which comes back answered with a reply has run the method.
		if typ == netkit.Reply || typ == netkit.Error || typ == netkit.Event || typ == 8 {
			capmap := netkit.CapMap(map[string]ref.Dyn{"auth_user": netkit.Str("u"), "auth_token": netkit.Str("t")})
			fr := netkit.Frame{Type: typ, ID: raw.NextID(), Service: 0, Object: 0, Action: 8, Payload: capmap}
			foreign[fr.ID] = fmt.Sprintf("type %d to the authentication service", typ)
			raw.Send(fr)
		}
	}
	if len(c.RawTypes) > 0 {
		// a barrier through the authentication service's mailbox
		raw.Authenticate("u", "t", bound)
	}
	// barriers: one call per object on the raw connection (mailbox FIFO: once
	// it is answered, every earlier frame for that object has been processed)
	for _, tg := range targets {
		f, ok := raw.CallWait(tg.svcID, tg.objectID, 100, netkit.StringPayload("barrier"), bound)
		// a barrier sent behind a pile of posts may itself be refused: again
		for deadline := time.Now().Add(bound); ok && f.Type == netkit.Error && strings.Contains(netkit.ErrorText(f.Payload), "consumer blocked") && time.Now().Before(deadline); {
			time.Sleep(time.Millisecond)
			f, ok = raw.CallWait(tg.svcID, tg.objectID, 100, netkit.StringPayload("barrier"), bound)
		}
		if !ok || f.Type != netkit.Reply {
			return vt.Violationf("C04:barrier", "barrier call on service %d object %d failed: %v", tg.svcID, tg.objectID, f)
		}
		if s, _ := netkit.DecodeString(f.Payload); s != "r:barrier" {
			return vt.Violationf("C04:wrong-answer", "barrier call answered %q", s)
		}
	}
	// cancelled calls may still be executing/answering: a second barrier round after a pause
	time.Sleep(3 * time.Millisecond)
	for _, tg := range targets {
		raw.CallWait(tg.svcID, tg.objectID, 100, netkit.StringPayload("barrier"), bound)
	}
	j := env.Journal
	known := map[string]bool{"barrier": true}
	for _, r := range recs {
		known[r.tag] = true
		n := j.Count("", "", r.tag)
		switch r.kind {
		case "call":
			if atomic.LoadInt32(&r.returned) != 1 {
				return vt.Violationf("C04:return-count", "call %s returned %d times", r.tag, r.returned)
			}
			if !r.ok && refused(r) {
				shedCalls++
				if n > 1 {
					return vt.Violationf("C04:execution-count", "call %s was refused by the server (%v) but its method ran %d times", r.tag, r.err, n)
				}
				continue
			}
			if !r.ok {
				return vt.Violationf("C04:call-failed", "call %s failed on a healthy connection: %v", r.tag, r.err)
			}
			if r.result != "r:"+r.tag {
				return vt.Violationf("C04:wrong-answer", "call %s returned %q: another call's answer", r.tag, r.result)
			}
			if n != 1 {
				return vt.Violationf("C04:execution-count", "successful call %s: method ran %d times", r.tag, n)
			}
		case "failcall":
			if r.ok {
				return vt.Violationf("C04:wrong-answer", "call %s returned success %q although the method failed", r.tag, r.result)
			}
			if refused(r) {
				shedCalls++
				if n > 1 {
					return vt.Violationf("C04:execution-count", "call %s was refused by the server (%v) but its method ran %d times", r.tag, r.err, n)
				}
				continue
			}
			if n != 1 {
				return vt.Violationf("C04:execution-count", "failed call %s: method ran %d times", r.tag, n)
			}
		case "cancel":
			if r.ok && r.result != "r:"+r.tag {
				return vt.Violationf("C04:wrong-answer", "cancelled call %s returned %q", r.tag, r.result)
			}
			if n > 1 {
				return vt.Violationf("C04:cancel-executes-again", "call %s (cancelled while in flight: %v) ran its method %d times", r.tag, !r.ok, n)
			}
			if r.ok && n != 1 {
				return vt.Violationf("C04:execution-count", "call %s succeeded but its method ran %d times", r.tag, n)
			}
		case "post":
			if n > 1 {
				return vt.Violationf("C04:execution-count", "post %s ran %d times", r.tag, n)
			}
			if n == 1 {
				vt.Label("post-executed")
			}
		}
	}
	for tag, typ := range rawTags {
		known[tag] = true
		if n := j.Count("", "", tag); n != 0 {
			return vt.Violationf(fmt.Sprintf("C04:non-call-type-executes:type=%d", typ), "a frame of type %d addressed to hello ran the method %d times", typ, n)
		}
	}
	for _, e := range j.Snapshot() {
		if !known[e.Arg] {
			return vt.Violationf("C04:unrequested-execution", "method %s ran with argument %q which nobody sent", e.Method, e.Arg)
		}
	}
	// nothing is ever sent back for a post; nothing for the foreign frames except errors
	for _, f := range raw.Frames() {
		if what, ok := foreign[f.ID]; ok && f.Type == netkit.Reply {
			return vt.Violationf("C04:non-call-type-executes:authenticate", "a frame which is neither a call nor a post (%s) ran authenticate and was answered with a reply: %v", what, f)
		}
		if tag, ok := postIDs.Load(f.ID); ok {
			return vt.Violationf("C04:post-answered", "post %v received a response frame %v", tag, f)
		}
	}
	if c.Oversized {
		tg := targets[0]
		osess, err := session.NewAuthSession(env.Addr, "u", "t")
		if err != nil {
			return vt.Violationf("C04:setup", "session: %v", err)
		}
		defer osess.Terminate()
		opx, err := osess.Proxy(tg.service, tg.objectID)
		if err != nil {
			return vt.Violationf("C04:proxy", "Proxy(%s,%d): %v", tg.service, tg.objectID, err)
		}
		tag := "big" + strings.Repeat("x", int(qnet.MaxPayloadSize)-4-1-3) // the request is one byte inside the limit, "r:"+tag is not
		done := make(chan error, 1)
		var res string
		go func() { r, err := pong.MakePingPong(osess, opx).Hello(tag); res = r; done <- err }()
		select {
		case err := <-done:
			if err == nil && res != "r:"+tag {
				return vt.Violationf("C04:wrong-answer", "the call with a %d byte argument returned success with %d other bytes", len(tag), len(res))
			}
		case <-time.After(2 * bound):
			return vt.Violationf("C04:no-outcome:oversized-result", "a call whose argument (%d bytes) fits in a message and whose result does not got no outcome within %v (its method ran %d times)\n%s", len(tag), 2*bound, env.Journal.Count("", "", tag), vt.BlockedInLibrary())
		}
		if n := env.Journal.Count("", "", tag); n > 1 {
			return vt.Violationf("C04:execution-count", "the call with an oversized result ran %d times", n)
		}
		vt.Label("oversized-result-phase")
	}
	if c.Overload {
		tg := targets[len(targets)-1]
		osess, err := session.NewAuthSession(env.Addr, "u", "t")
		if err != nil {
			return vt.Violationf("C04:setup", "session: %v", err)
		}
		defer osess.Terminate()
		opx, err := osess.Proxy(tg.service, tg.objectID)
		if err != nil {
			return vt.Violationf("C04:proxy", "Proxy(%s,%d): %v", tg.service, tg.objectID, err)
		}
		ping := pong.MakePingPong(osess, opx)
		type out struct {
			tag, res string
			err      error
		}
		results := make(chan out, 40)
		for k := 0; k < 40; k++ {
			go func(k int) {
				tag := fmt.Sprintf("overload%d~1500", k)
				res, err := ping.Hello(tag)
				results <- out{tag, res, err}
			}(k)
		}
		refusedN := 0
		for k := 0; k < 40; k++ {
			select {
			case o := <-results:
				n := env.Journal.Count("", "", o.tag)
				switch {
				case o.err == nil && o.res == "r:"+o.tag && n == 1:
				case o.err != nil && strings.Contains(o.err.Error(), "consumer blocked") && n == 0:
					refusedN++
				default:
					return vt.Violationf("C04:overload-outcome", "one of forty concurrent calls on one connection, %s, returned (%q, %v) and its method ran %d times: neither its own result after one execution nor a refusal without execution", o.tag, o.res, o.err, n)
				}
			case <-time.After(2 * bound):
				return vt.Violationf("C04:no-outcome:overload", "after %v only %d of forty concurrent calls on one connection had returned: a call which the server cannot queue must be refused, not left without an answer\n%s", 2*bound, k, vt.BlockedInLibrary())
			}
		}
		vt.Label("overload-phase")
		if refusedN > 0 {
			vt.Label("overload-phase-with-refusals")
		}
	}
	// removal under load: an added object is kept busy by a slow call, calls
	// queue up behind it, its own terminate request follows and more calls
	// after that, all on the raw connection without waiting. Whatever the
	// object's fate, every one of these calls gets exactly one answer (a reply
	// or an error) within the bound.
	for _, tg := range targets {
		if tg.objectID == 1 || !c.RemoveUnderLoad {
			continue
		}
		type sent struct {
			conn *netkit.RawClient
			from int
			id   uint32
			what string
		}
		var calls []sent
		send := func(conn *netkit.RawClient, action uint32, payload []byte, what string) {
			id := conn.NextID()
			calls = append(calls, sent{conn, len(conn.Frames()), id, what})
			conn.Send(netkit.Frame{Type: netkit.Call, ID: id, Service: tg.svcID, Object: tg.objectID, Action: action, Payload: payload})
		}
		// three more connections: one connection alone cannot keep more than
		// about ten messages waiting (the server sheds the rest), and the point
		// is to have senders waiting for room in the object's mailbox at the
		// moment it is removed
		var extra []*netkit.RawClient
		for k := 0; k < 3; k++ {
			x, err := netkit.Dial(env.Addr)
			if err != nil || !x.Authenticate("u", "t", bound) {
				return vt.Violationf("C04:setup", "raw client: %v", err)
			}
			defer x.Close()
			extra = append(extra, x)
		}
		send(raw, 100, netkit.StringPayload("busy~4000"), "slow call")
		send(raw, 100, netkit.StringPayload("queued"), "call queued behind the slow one")
		send(raw, 3, binary.LittleEndian.AppendUint32(nil, tg.objectID), "terminate")
		for k := 0; k < 6; k++ {
			for xi, x := range extra {
				send(x, 100, netkit.StringPayload(fmt.Sprintf("late%d-%d", xi, k)), "call sent after terminate")
			}
		}
		for _, cl := range calls {
			if _, _, ok := cl.conn.WaitFrame(cl.from, func(f netkit.Frame) bool { return f.ID == cl.id && (f.Type == netkit.Reply || f.Type == netkit.Error) }, bound); !ok {
				return vt.Violationf("C04:no-outcome:removal-under-load", "%s (id %d) to object %d of service %d, which was terminated while busy, got no answer within %v", cl.what, cl.id, tg.objectID, tg.svcID, bound)
			}
		}
		time.Sleep(time.Millisecond)
		for _, cl := range calls {
			n := 0
			for _, f := range cl.conn.Frames()[cl.from:] {
				if f.ID == cl.id && (f.Type == netkit.Reply || f.Type == netkit.Error) {
					n++
				}
			}
			if n != 1 {
				return vt.Violationf("C04:answer-count:removal-under-load", "%s (id %d) received %d answers", cl.what, cl.id, n)
			}
		}
		vt.Label("removal-under-load")
		break // one object per run
	}
	// overlap: two calls of one session in flight at the same time
	overlap := false
	for i, a := range recs {
		for _, b := range recs[i+1:] {
			if a.session == b.session && a.kind != "post" && b.kind != "post" && a.start < b.end && b.start < a.end {
				overlap = true
			}
		}
	}
	labels := []string{fmt.Sprintf("sessions=%d", len(c.Sessions)), fmt.Sprintf("objects=%d", len(targets))}
	if shedCalls > 0 || drops.Count() > dropsBefore {
		labels = append(labels, "server-shed-load")
		if shedCalls > 0 {
			vt.LabelN("calls-refused-by-load-shedding", int64(shedCalls))
		}
	}
	if overlap {
		labels = append(labels, "calls-overlapped-on-one-connection")
	}
	key, _ := json.Marshal(c)
	vt.Case(overlap, string(key), labels...)
	if overlap {
		vt.Sample("run", map[string]interface{}{"objects": c.Objects, "sessions": len(c.Sessions), "calls": len(recs)})
	}
	return nil
}

// ---------------------------------------------------------------------------
// message ids of one client are distinct under concurrent callers

type IDCase struct {
	Callers int `json:"callers"`
	Each    int `json:"each"`
}

func genIDs(t *rapid.T) IDCase {
	return IDCase{Callers: rapid.IntRange(2, 12).Draw(t, "callers"), Each: rapid.IntRange(1, 30).Draw(t, "each")}
}

func checkIDs(c IDCase) error {
	s := hio.NewScriptStream(nil)
	s.YieldEvery = 2
	s.OnWrite = func(st *hio.ScriptStream, p []byte) {
		if len(p) >= 28 && p[14] == qnet.Call {
			reply := append([]byte{}, p[:28]...)
			reply[14] = qnet.Reply
			binary.LittleEndian.PutUint32(reply[8:], 0)
			st.Feed(reply)
		}
	}
	ep := qnet.NewEndPoint(s)
	defer ep.Close()
	client := bus.NewClient(bus.NewContext(ep))
	var wg sync.WaitGroup
	var failed int32
	for i := 0; i < c.Callers; i++ {
		wg.Add(1)
		go func(i int) {
			defer wg.Done()
			for k := 0; k < c.Each; k++ {
				if _, err := client.Call(nil, 1, 1, uint32(100+i), nil); err != nil {
					atomic.AddInt32(&failed, 1)
				}
			}
		}(i)
	}
	done := make(chan struct{})
	go func() { wg.Wait(); close(done) }()
	select {
	case <-done:
	case <-time.After(bound):
		return vt.Violationf("C04:call-hangs", "calls over a responsive stream did not return within %v", bound)
	}
	if failed != 0 {
		return vt.Violationf("C04:call-failed", "%d calls failed on a healthy stream", failed)
	}
	seen := map[uint32]bool{}
	for _, w := range s.Writes() {
		if len(w) >= 28 && w[14] == qnet.Call {
			id := binary.LittleEndian.Uint32(w[4:])
			if seen[id] {
				return vt.Violationf("C04:duplicate-message-id", "message id %d used by two calls of one client", id)
			}
			seen[id] = true
		}
	}
	vt.Case(true, fmt.Sprint(c), "ids")
	return nil
}

// ---------------------------------------------------------------------------
// several clients on ONE connection (each numbers its messages from the same
// start): calls to different targets carry equal ids at the same time and must
// still get their own answers.

type SharedCase struct {
	Clients int   `json:"clients"` // clients (bus.Cache) sharing one endpoint
	Each    int   `json:"each"`    // calls per client
	Delays  []int `json:"delays"`  // callee delay per client (us)
	// SameTarget: every client calls the same service with arguments of the
	// same length: frames which are equal in every header field, sent by
	// different clients of the connection, arrive one behind the other
	SameTarget bool `json:"same_target,omitempty"`
}

func genShared(t *rapid.T) SharedCase {
	c := SharedCase{Clients: rapid.IntRange(2, 4).Draw(t, "clients"), Each: rapid.IntRange(1, 12).Draw(t, "each")}
	for i := 0; i < c.Clients; i++ {
		c.Delays = append(c.Delays, rapid.SampledFrom([]int{0, 50, 300, 1000}).Draw(t, "delay"))
	}
	if rapid.IntRange(0, 2).Draw(t, "sametarget") == 0 {
		c.SameTarget = true
		for i := range c.Delays {
			c.Delays[i] = c.Delays[0]
		}
	}
	return c
}

func checkShared(c SharedCase) error {
	vt.Journal(prop, "TestSharedConnection", "C04:process-died", c)
	defer vt.JournalDone(prop, "TestSharedConnection")
	env, err := netkit.StartServer(bus.Yes{})
	if err != nil {
		return vt.Violationf("C04:setup", "server: %v", err)
	}
	defer env.Close()
	// one service per client: the targets differ in service id
	var svcIDs []uint32
	for i := 0; i < c.Clients; i++ {
		svc, _, err := env.AddPong(fmt.Sprintf("Svc%d", i))
		if err != nil {
			return vt.Violationf("C04:setup", "service: %v", err)
		}
		svcIDs = append(svcIDs, svc.ServiceID())
	}
	ep, err := qnet.DialEndPoint(env.Addr)
	if err != nil {
		return vt.Violationf("C04:setup", "dial: %v", err)
	}
	defer ep.Close()
	if err := bus.AuthenticateUser(ep, "u", "t"); err != nil {
		return vt.Violationf("C04:setup", "authenticate: %v", err)
	}
	proxies := make([]pong.PingPongProxy, c.Clients)
	for i := range proxies {
		cache := bus.NewCache(ep) // its own client, same connection
		name := fmt.Sprintf("Svc%d", i)
		if c.SameTarget {
			name = "Svc0"
		}
		if err := cache.Lookup(name, svcIDs[map[bool]int{true: 0, false: i}[c.SameTarget]]); err != nil {
			return vt.Violationf("C04:setup", "lookup: %v", err)
		}
		px, err := cache.Proxy(name, 1)
		if err != nil {
			return vt.Violationf("C04:setup", "proxy: %v", err)
		}
		proxies[i] = pong.MakePingPong(cache, px)
	}
	var wg sync.WaitGroup
	var mu sync.Mutex
	var first error
	start := make(chan struct{})
	for i := range proxies {
		wg.Add(1)
		go func(i int) {
			defer wg.Done()
			<-start
			for k := 0; k < c.Each; k++ {
				tag := fmt.Sprintf("c%dk%d~%d", i, k, c.Delays[i])
				res, err := proxies[i].Hello(tag)
				if err != nil || res != "r:"+tag {
					mu.Lock()
					if first == nil {
						first = vt.Violationf("C04:wrong-answer:shared-connection", "client %d of %d sharing one connection: hello(%q) returned (%q, %v)", i, c.Clients, tag, res, err)
					}
					mu.Unlock()
					return
				}
			}
		}(i)
	}
	close(start)
	done := make(chan struct{})
	go func() { wg.Wait(); close(done) }()
	select {
	case <-done:
	case <-time.After(bound):
		return vt.Violationf("C04:call-hangs", "calls of %d clients sharing one connection did not return within %v", c.Clients, bound)
	}
	if first != nil {
		return first
	}
	for i := 0; i < c.Clients; i++ {
		for k := 0; k < c.Each; k++ {
			tag := fmt.Sprintf("c%dk%d~%d", i, k, c.Delays[i])
			svcName := fmt.Sprintf("Svc%d", i)
			if c.SameTarget {
				svcName = "Svc0"
			}
			if n := env.Journal.Count(svcName, "hello", tag); n != 1 {
				return vt.Violationf("C04:execution-count", "shared connection: hello(%q) ran %d times on its own service", tag, n)
			}
		}
	}
	if c.SameTarget {
		vt.Label("shared-connection-same-target(equal-headers)")
	}
	vt.Case(c.Each >= 2, fmt.Sprint(c), "shared-connection", fmt.Sprintf("clients=%d", c.Clients))
	return nil
}

func TestCalls(t *testing.T) { vt.Run(t, prop, "TestCalls", genCase, checkCase) }
func TestSharedConnection(t *testing.T) {
	vt.Run(t, prop, "TestSharedConnection", genShared, checkShared)
}
func TestIDs(t *testing.T) { vt.Run(t, prop, "TestIDs", genIDs, checkIDs) }

func TestReplay(t *testing.T) {
	vt.Replay(t, map[string]func(json.RawMessage) error{"TestCalls": vt.Decode(checkCase), "TestIDs": vt.Decode(checkIDs), "TestSharedConnection": vt.Decode(checkShared), "TestClientObjects": vt.Decode(checkCo), "TestCancelStorm": vt.Decode(checkStorm)})
}
