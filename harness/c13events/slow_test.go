package c13events

// A subscriber that does not read for a while: the events emitted meanwhile
// wait in its pipeline. The property covers subscribers "within the queue
// capacity" (100 messages in bus.client.Subscribe; beyond it the library drops
// events and says so in its log), so the backlog stays well inside it: none
// of those events may be lost, duplicated or reordered once the subscriber
// reads again, and its neighbours on the same connection are not disturbed.

import (
	"encoding/json"
	"fmt"
	"testing"
	"time"

	"github.com/lugu/qiloop/bus"
	"github.com/lugu/qiloop/bus/session"
	"github.com/lugu/qiloop/examples/space"
	"pgregory.net/rapid"
	"verif/harness/netkit"
	"verif/harness/probe"
	"verif/harness/vt"
)

type SlowCase struct {
	N      int `json:"n"`      // events emitted while the subscriber does not read
	Others int `json:"others"` // other subscribers of the same client which do read
}

// maxBacklog stays far below the library's queue capacity (100) so that a
// legitimate change of that capacity does not turn into an alarm.
const maxBacklog = 32

func genSlow(t *rapid.T) SlowCase {
	n := rapid.OneOf(rapid.IntRange(1, maxBacklog), rapid.SampledFrom([]int{1, 2, 16, maxBacklog})).Draw(t, "n")
	return SlowCase{N: n, Others: rapid.IntRange(0, 2).Draw(t, "others")}
}

func checkSlow(c SlowCase) error {
	vt.Journal(prop, "TestSlowSubscriber", "C13:process-died", c)
	defer vt.JournalDone(prop, "TestSlowSubscriber")
	env, err := netkit.StartServer(bus.Yes{})
	if err != nil {
		return vt.Violationf("C13:setup", "server: %v", err)
	}
	defer env.Close()
	bomb, actor := probe.NewBomb("bomb", env.Journal)
	if _, err := env.Server.NewService("Bomb", actor); err != nil {
		return vt.Violationf("C13:setup", "service: %v", err)
	}
	sess, err := session.NewAuthSession(env.Addr, "u", "t")
	if err != nil {
		return vt.Violationf("C13:setup", "session: %v", err)
	}
	defer sess.Terminate()
	mk := func() (space.BombProxy, error) {
		p, err := sess.Proxy("Bomb", 1)
		if err != nil {
			return nil, err
		}
		return space.MakeBomb(sess, p), nil
	}
	px, err := mk()
	if err != nil {
		return vt.Violationf("C13:setup", "proxy: %v", err)
	}
	cancel, ch, err := px.SubscribeBoom()
	if err != nil {
		return vt.Violationf("C13:slow:subscribe-error", "%v", err)
	}
	defer cancel()
	// other subscribers, on the delay signal of the same connection, keep reading
	var others []*subscription
	for i := 0; i < c.Others; i++ {
		ox, err := mk()
		if err != nil {
			return vt.Violationf("C13:setup", "proxy: %v", err)
		}
		ocancel, och, err := ox.SubscribeDelay()
		if err != nil {
			return vt.Violationf("C13:slow:subscribe-error", "%v", err)
		}
		defer ocancel()
		sub := &subscription{signal: "delay", ch: och, closed: make(chan struct{})}
		go sub.reader()
		others = append(others, sub)
	}
	dropsBefore := drops.Count()
	for i := 1; i <= c.N; i++ {
		if err := bomb.Helper.SignalBoom(int32(i)); err != nil {
			return vt.Violationf("C13:emit-error", "emitting boom(%d): %v", i, err)
		}
		if len(others) > 0 {
			if err := bomb.Helper.UpdateDelay(int32(i)); err != nil {
				return vt.Violationf("C13:emit-error", "updating delay(%d): %v", i, err)
			}
		}
	}
	// the answer to a call made now comes after all the events on the connection
	if _, err := px.GetDelay(); err != nil {
		return vt.Violationf("C13:barrier", "barrier call: %v", err)
	}
	// everything that was not dropped is in the pipeline now: it comes out as
	// fast as it is read. Silence means the rest is lost (a long silence is
	// only waited for when the library did not report any drop)
	var got []int32
read:
	for len(got) < c.N {
		idle := bound
		if drops.Count() > dropsBefore {
			idle = 300 * time.Millisecond
		}
		select {
		case v, ok := <-ch:
			if !ok {
				break read
			}
			got = append(got, v)
		case <-time.After(idle):
			break read
		}
	}
	// nothing more may follow
	select {
	case v, ok := <-ch:
		if ok {
			got = append(got, v)
		}
	case <-time.After(2 * time.Millisecond):
	}
	want := make([]int32, c.N)
	for i := range want {
		want[i] = int32(i + 1)
	}
	if !sameSeq(got, want) {
		dropped := drops.Count() - dropsBefore
		return vt.Violationf("C13:slow:wrong-events", "a subscriber which did not read while %d events were emitted received %d events afterwards, not exactly 1..%d in order (dropped messages logged: %d); first difference at %d", c.N, len(got), c.N, dropped, firstMissing(got))
	}
	for i, o := range others {
		deadline := time.Now().Add(bound)
		for len(o.got()) < c.N && time.Now().Before(deadline) {
			time.Sleep(100 * time.Microsecond)
		}
		if !sameSeq(o.got(), want) {
			return vt.Violationf("C13:slow:neighbour-disturbed", "subscriber %d of another signal on the same connection, which kept reading, received %d of %d events while its neighbour was not reading", i, len(o.got()), c.N)
		}
	}
	nontrivial := c.N >= 2
	key, _ := json.Marshal(c)
	vt.Case(nontrivial, "slow"+string(key), "mode=slow-subscriber", fmt.Sprintf("backlog>=%d", c.N/8*8))
	if nontrivial {
		vt.Sample("slow-subscriber", c)
	}
	return nil
}

func firstMissing(got []int32) int {
	for i, v := range got {
		if v != int32(i+1) {
			return i + 1
		}
	}
	return len(got) + 1
}

func TestSlowSubscriber(t *testing.T) { vt.Run(t, prop, "TestSlowSubscriber", genSlow, checkSlow) }

// A sibling which has stopped reading for good: beyond the capacity of its
// queue the library sheds its events (the property does not cover it any
// more), but the subscribers of the same signal on the same connection which
// keep reading still get every event once, in order.
type StalledCase struct {
	Readers    int   `json:"readers"`
	StallFirst bool  `json:"stall_first"` // the stalled subscriber registered before the readers
	Lockstep   int   `json:"lockstep"`    // events emitted one by one (each awaited by the readers) until the stalled queue is full
	Bursts     []int `json:"bursts"`      // then bursts of events back to back
}

func genStalled(t *rapid.T) StalledCase {
	c := StalledCase{Readers: rapid.IntRange(1, 2).Draw(t, "readers"), StallFirst: rapid.Bool().Draw(t, "stallfirst"),
		Lockstep: rapid.IntRange(98, 130).Draw(t, "lockstep")}
	n := rapid.IntRange(1, 5).Draw(t, "bursts")
	for i := 0; i < n; i++ {
		c.Bursts = append(c.Bursts, rapid.IntRange(2, 20).Draw(t, "burst"))
	}
	return c
}

func checkStalled(c StalledCase) error {
	vt.Journal(prop, "TestStalledSibling", "C13:process-died", c)
	defer vt.JournalDone(prop, "TestStalledSibling")
	env, err := netkit.StartServer(bus.Yes{})
	if err != nil {
		return vt.Violationf("C13:setup", "server: %v", err)
	}
	defer env.Close()
	bomb, actor := probe.NewBomb("bomb", env.Journal)
	if _, err := env.Server.NewService("Bomb", actor); err != nil {
		return vt.Violationf("C13:setup", "service: %v", err)
	}
	sess, err := session.NewAuthSession(env.Addr, "u", "t")
	if err != nil {
		return vt.Violationf("C13:setup", "session: %v", err)
	}
	defer sess.Terminate()
	subscribe := func() (func(), chan int32, error) {
		p, err := sess.Proxy("Bomb", 1)
		if err != nil {
			return nil, nil, err
		}
		return space.MakeBomb(sess, p).SubscribeBoom()
	}
	var stalledCh chan int32
	stall := func() error {
		cancel, ch, err := subscribe()
		if err != nil {
			return vt.Violationf("C13:subscribe-error", "%v", err)
		}
		_ = cancel // it never reads, never cancels: it goes with the session
		stalledCh = ch
		return nil
	}
	if c.StallFirst {
		if err := stall(); err != nil {
			return err
		}
	}
	var readers []*subscription
	for i := 0; i < c.Readers; i++ {
		cancel, ch, err := subscribe()
		if err != nil {
			return vt.Violationf("C13:subscribe-error", "%v", err)
		}
		defer cancel()
		s := &subscription{signal: "boom", ch: ch, closed: make(chan struct{})}
		go s.reader()
		readers = append(readers, s)
	}
	if !c.StallFirst {
		if err := stall(); err != nil {
			return err
		}
	}
	emitted := int32(0)
	await := func(why string) error {
		for i, r := range readers {
			deadline := time.Now().Add(bound)
			for len(r.got()) < int(emitted) && time.Now().Before(deadline) {
				time.Sleep(50 * time.Microsecond)
			}
			got := r.got()
			for k, v := range got {
				if v != int32(k+1) {
					return vt.Violationf("C13:stalled-sibling:neighbour-disturbed", "%s: subscriber %d, which keeps reading, received %d as its event number %d (a sibling subscribed to the same signal through the same connection stopped reading %d events ago)", why, i, v, k+1, emitted)
				}
			}
			if len(got) != int(emitted) {
				return vt.Violationf("C13:stalled-sibling:neighbour-disturbed", "%s: subscriber %d, which keeps reading, has received %d of the %d events emitted (a sibling subscribed to the same signal through the same connection has stopped reading)", why, i, len(got), emitted)
			}
		}
		return nil
	}
	for i := 0; i < c.Lockstep; i++ {
		emitted++
		if err := bomb.Helper.SignalBoom(emitted); err != nil {
			return vt.Violationf("C13:emit-error", "%v", err)
		}
		if err := await("one by one"); err != nil {
			return err
		}
	}
	for _, n := range c.Bursts {
		for i := 0; i < n; i++ {
			emitted++
			if err := bomb.Helper.SignalBoom(emitted); err != nil {
				return vt.Violationf("C13:emit-error", "%v", err)
			}
		}
		if err := await(fmt.Sprintf("after a burst of %d", n)); err != nil {
			return err
		}
	}
	// what the stalled one finds if it ever looks: events in order, none twice, none invented
	last := int32(0)
drain:
	for {
		select {
		case v, ok := <-stalledCh:
			if !ok {
				break drain
			}
			if v <= last || v > emitted {
				return vt.Violationf("C13:stalled-sibling:duplicate-or-reordered", "the stalled subscriber finds %d after %d in its queue (%d events emitted)", v, last, emitted)
			}
			last = v
		default:
			break drain
		}
	}
	key, _ := json.Marshal(c)
	vt.Case(c.Lockstep >= 102, "stalled"+string(key), "mode=stalled-sibling", fmt.Sprintf("readers=%d", c.Readers))
	return nil
}

func TestStalledSibling(t *testing.T) { vt.Run(t, prop, "TestStalledSibling", genStalled, checkStalled) }
