package c13events

// A subscriber that does not read for a while: the events emitted meanwhile
// wait in its pipeline. The property covers subscribers "within the queue
// capacity" (100 messages in bus.client.Subscribe; beyond it the library drops
// events and says so in its log), so the backlog stays well inside it: none
// of those events may be lost, duplicated or reordered once the subscriber
// reads again, and its neighbours on the same connection are not disturbed.

import (
	"encoding/json"
	"fmt"
	"testing"
	"time"

	"github.com/lugu/qiloop/bus"
	"github.com/lugu/qiloop/bus/session"
	"github.com/lugu/qiloop/examples/space"
	"pgregory.net/rapid"
	"verif/harness/netkit"
	"verif/harness/probe"
	"verif/harness/vt"
)

type SlowCase struct {
	N      int `json:"n"`      // events emitted while the subscriber does not read
	Others int `json:"others"` // other subscribers of the same client which do read
}

// maxBacklog stays far below the library's queue capacity (100) so that a
// legitimate change of that capacity does not turn into an alarm.
const maxBacklog = 32

func genSlow(t *rapid.T) SlowCase {
	n := rapid.OneOf(rapid.IntRange(1, maxBacklog), rapid.SampledFrom([]int{1, 2, 16, maxBacklog})).Draw(t, "n")
	return SlowCase{N: n, Others: rapid.IntRange(0, 2).Draw(t, "others")}
}

func checkSlow(c SlowCase) error {
	vt.Journal(prop, "TestSlowSubscriber", "C13:process-died", c)
	defer vt.JournalDone(prop, "TestSlowSubscriber")
	env, err := netkit.StartServer(bus.Yes{})
	if err != nil {
		return vt.Violationf("C13:setup", "server: %v", err)
	}
	defer env.Close()
	bomb, actor := probe.NewBomb("bomb", env.Journal)
	if _, err := env.Server.NewService("Bomb", actor); err != nil {
		return vt.Violationf("C13:setup", "service: %v", err)
	}
	sess, err := session.NewAuthSession(env.Addr, "u", "t")
	if err != nil {
		return vt.Violationf("C13:setup", "session: %v", err)
	}
	defer sess.Terminate()
	mk := func() (space.BombProxy, error) {
		p, err := sess.Proxy("Bomb", 1)
		if err != nil {
			return nil, err
		}
		return space.MakeBomb(sess, p), nil
	}
	px, err := mk()
	if err != nil {
		return vt.Violationf("C13:setup", "proxy: %v", err)
	}
	cancel, ch, err := px.SubscribeBoom()
	if err != nil {
		return vt.Violationf("C13:slow:subscribe-error", "%v", err)
	}
	defer cancel()
	// other subscribers, on the delay signal of the same connection, keep reading
	var others []*subscription
	for i := 0; i < c.Others; i++ {
		ox, err := mk()
		if err != nil {
			return vt.Violationf("C13:setup", "proxy: %v", err)
		}
		ocancel, och, err := ox.SubscribeDelay()
		if err != nil {
			return vt.Violationf("C13:slow:subscribe-error", "%v", err)
		}
		defer ocancel()
		sub := &subscription{signal: "delay", ch: och, closed: make(chan struct{})}
		go sub.reader()
		others = append(others, sub)
	}
	dropsBefore := drops.Count()
	for i := 1; i <= c.N; i++ {
		if err := bomb.Helper.SignalBoom(int32(i)); err != nil {
			return vt.Violationf("C13:emit-error", "emitting boom(%d): %v", i, err)
		}
		if len(others) > 0 {
			if err := bomb.Helper.UpdateDelay(int32(i)); err != nil {
				return vt.Violationf("C13:emit-error", "updating delay(%d): %v", i, err)
			}
		}
	}
	// the answer to a call made now comes after all the events on the connection
	if _, err := px.GetDelay(); err != nil {
		return vt.Violationf("C13:barrier", "barrier call: %v", err)
	}
	// everything that was not dropped is in the pipeline now: it comes out as
	// fast as it is read. Silence means the rest is lost (a long silence is
	// only waited for when the library did not report any drop)
	var got []int32
read:
	for len(got) < c.N {
		idle := bound
		if drops.Count() > dropsBefore {
			idle = 300 * time.Millisecond
		}
		select {
		case v, ok := <-ch:
			if !ok {
				break read
			}
			got = append(got, v)
		case <-time.After(idle):
			break read
		}
	}
	// nothing more may follow
	select {
	case v, ok := <-ch:
		if ok {
			got = append(got, v)
		}
	case <-time.After(2 * time.Millisecond):
	}
	want := make([]int32, c.N)
	for i := range want {
		want[i] = int32(i + 1)
	}
	if !sameSeq(got, want) {
		dropped := drops.Count() - dropsBefore
		return vt.Violationf("C13:slow:wrong-events", "a subscriber which did not read while %d events were emitted received %d events afterwards, not exactly 1..%d in order (dropped messages logged: %d); first difference at %d", c.N, len(got), c.N, dropped, firstMissing(got))
	}
	for i, o := range others {
		deadline := time.Now().Add(bound)
		for len(o.got()) < c.N && time.Now().Before(deadline) {
			time.Sleep(100 * time.Microsecond)
		}
		if !sameSeq(o.got(), want) {
			return vt.Violationf("C13:slow:neighbour-disturbed", "subscriber %d of another signal on the same connection, which kept reading, received %d of %d events while its neighbour was not reading", i, len(o.got()), c.N)
		}
	}
	nontrivial := c.N >= 2
	key, _ := json.Marshal(c)
	vt.Case(nontrivial, "slow"+string(key), "mode=slow-subscriber", fmt.Sprintf("backlog>=%d", c.N/8*8))
	if nontrivial {
		vt.Sample("slow-subscriber", c)
	}
	return nil
}

func firstMissing(got []int32) int {
	for i, v := range got {
		if v != int32(i+1) {
			return i + 1
		}
	}
	return len(got) + 1
}

func TestSlowSubscriber(t *testing.T) { vt.Run(t, prop, "TestSlowSubscriber", genSlow, checkSlow) }
