// Package c13events decides C13: subscribers get each emitted event exactly
// once, in order, only while subscribed.
package c13events

import (
	"encoding/binary"
	"encoding/json"
	"fmt"
	"log"
	"sync"
	"testing"
	"time"

	"github.com/lugu/qiloop/bus"
	"github.com/lugu/qiloop/bus/session"
	"github.com/lugu/qiloop/examples/space"
	"pgregory.net/rapid"
	"verif/harness/netkit"
	"verif/harness/probe"
	"verif/harness/vt"
)

const prop = "C13"

// drops counts the messages the library reports as dropped (queue overflow).
var drops = &netkit.DropLog{}

func TestMain(m *testing.M) {
	log.SetOutput(drops)
	vt.Main(m)
}

// Op is one step.
type Op struct {
	Kind   string `json:"kind"`   // sub | cancel | emit | burst | stats | trace (N: 1 on, 0 off; Obj: which object)
	Slot   int    `json:"slot"`   // subscriber slot
	Signal string `json:"signal"` // boom | delay
	N      int    `json:"n,omitempty"`
	Obj    int    `json:"obj,omitempty"` // emit | burst: 0 the service's main Bomb object, 1 a second Bomb object of the same service
}

// Case: a placement per subscriber slot and a script.
type Case struct {
	// TerminateAt > 0: before step number TerminateAt (counted from 1) the second object is removed from its
	// service. Its subscribers are told (their channels close); the cancel
	// functions they still hold are called later, at a "cancel" step for their
	// slot or at the end, and must not disturb anybody else.
	TerminateAt int      `json:"terminate_at"`
	Places      []string `json:"places"` // A1 | A2 | B | C1 | C2 | raw (main object); A3 | B3: a proxy of the second object through session A / B
	Ops         []Op     `json:"ops"`
}

func placements() []string {
	p := []string{"A1", "A1", "A2", "B", "raw", "A3", "B3", "L1", "L2"}
	if !vt.Known("C13:two-clients-one-connection") {
		p = append(p, "C1", "C2")
	} else {
		vt.Excluded("C13:two-clients-one-connection")
		p = append(p, "C1") // a single cache proxy is fine
	}
	return p
}

func genCase(t *rapid.T) Case {
	var c Case
	n := rapid.IntRange(1, 4).Draw(t, "slots")
	for i := 0; i < n; i++ {
		c.Places = append(c.Places, rapid.SampledFrom(placements()).Draw(t, "place"))
	}
	steps := rapid.IntRange(2, 25).Draw(t, "steps")
	if rapid.IntRange(0, 3).Draw(t, "terminate") == 0 {
		c.TerminateAt = rapid.IntRange(1, steps).Draw(t, "terminateat")
	}
	for i := 0; i < steps; i++ {
		op := Op{
			Kind:   rapid.SampledFrom([]string{"sub", "sub", "sub", "cancel", "emit", "emit", "emit", "emit", "burst", "sub", "cancel", "emit", "stats", "trace", "brokensub"}).Draw(t, "kind"),
			Slot:   rapid.IntRange(0, n-1).Draw(t, "slot"),
			Signal: rapid.SampledFrom([]string{"boom", "boom", "delay"}).Draw(t, "signal"),
		}
		if op.Kind == "burst" {
			op.N = rapid.IntRange(2, 50).Draw(t, "burst")
		}
		if op.Kind == "emit" || op.Kind == "burst" {
			op.Obj = rapid.SampledFrom([]int{0, 0, 1}).Draw(t, "emitter")
		}
		if op.Kind == "stats" || op.Kind == "trace" {
			// the object's statistics or tracing are switched on or off (the
			// generic object actions every client may call)
			op.Obj = rapid.SampledFrom([]int{0, 0, 1}).Draw(t, "observed")
			op.N = rapid.SampledFrom([]int{1, 1, 0}).Draw(t, "onoff")
		}
		c.Ops = append(c.Ops, op)
	}
	return c
}

const bound = 10 * time.Second

// subscription is one active subscription of a slot.
type subscription struct {
	signal   string
	cancel   func()
	ch       chan int32
	mu       sync.Mutex
	received []int32
	closed   chan struct{}
	expected []int32
	// raw subscriptions
	raw     bool
	handler uint64
	regID   uint32 // message id of the registerEvent call: event frames carry it
	fromIdx int
}

func (s *subscription) reader() {
	for v := range s.ch {
		s.mu.Lock()
		s.received = append(s.received, v)
		s.mu.Unlock()
	}
	close(s.closed)
}

func (s *subscription) got() []int32 {
	s.mu.Lock()
	defer s.mu.Unlock()
	return append([]int32{}, s.received...)
}

type slot struct {
	obj   int // index of the object it listens to
	place string
	proxy space.BombProxy
	raw   *netkit.RawClient
	subs  map[string]*subscription
}

var signalIDs = map[string]uint32{"boom": 100, "delay": 101}

func regPayload(object, signal uint32, handler uint64) []byte {
	b := binary.LittleEndian.AppendUint32(nil, object)
	b = binary.LittleEndian.AppendUint32(b, signal)
	return binary.LittleEndian.AppendUint64(b, handler)
}

func sameSeq(a, b []int32) bool {
	if len(a) != len(b) {
		return false
	}
	for i := range a {
		if a[i] != b[i] {
			return false
		}
	}
	return true
}

func placeClass(places []string) string {
	cnt := map[string]int{}
	for _, p := range places {
		cnt[p]++
	}
	switch {
	case cnt["C1"] > 0 && cnt["C2"] > 0:
		return "C13:two-clients-one-connection"
	case cnt["A1"] > 1:
		return "C13:same-proxy"
	case cnt["A1"] > 0 && cnt["A2"] > 0:
		return "C13:same-client"
	}
	return "C13:other"
}

func checkCase(c Case) error {
	vt.Journal(prop, "TestEvents", "C13:process-died", c)
	defer vt.JournalDone(prop, "TestEvents")
	env, err := netkit.StartServer(bus.Yes{})
	if err != nil {
		return vt.Violationf("C13:setup", "server: %v", err)
	}
	defer env.Close()
	bomb, actor := probe.NewBomb("bomb", env.Journal)
	svc, err := env.Server.NewService("Bomb", actor)
	if err != nil {
		return vt.Violationf("C13:setup", "service: %v", err)
	}
	// a second Bomb object in the same service: same signal and property ids
	bomb2, actor2 := probe.NewBomb("bomb2", env.Journal)
	obj2, err := svc.Add(actor2)
	if err != nil {
		return vt.Violationf("C13:setup", "second object: %v", err)
	}
	bombs := []*probe.Bomb{bomb, bomb2}
	cls := placeClass(c.Places)
	// connections
	var sessA, sessB bus.Session
	var cache *bus.Cache
	mkSession := func() (bus.Session, error) { return session.NewAuthSession(env.Addr, "u", "t") }
	var a1, a2, a3, b1, b3, c1, c2, l1, l2 space.BombProxy
	var rawc *netkit.RawClient
	need := map[string]bool{}
	for _, p := range c.Places {
		need[p] = true
	}
	if need["A1"] || need["A2"] || need["A3"] {
		if sessA, err = mkSession(); err != nil {
			return vt.Violationf("C13:setup", "session: %v", err)
		}
		defer sessA.Terminate()
		if need["A3"] {
			p3, err := sessA.Proxy("Bomb", obj2)
			if err != nil {
				return vt.Violationf("C13:setup", "proxy of the second object: %v", err)
			}
			a3 = space.MakeBomb(sessA, p3)
		}
		p1, err1 := sessA.Proxy("Bomb", 1)
		p2, err2 := sessA.Proxy("Bomb", 1)
		if err1 != nil || err2 != nil {
			return vt.Violationf("C13:setup", "proxy: %v %v", err1, err2)
		}
		a1, a2 = space.MakeBomb(sessA, p1), space.MakeBomb(sessA, p2)
	}
	if need["B"] || need["B3"] {
		if sessB, err = mkSession(); err != nil {
			return vt.Violationf("C13:setup", "session: %v", err)
		}
		defer sessB.Terminate()
		if need["B3"] {
			p3, err := sessB.Proxy("Bomb", obj2)
			if err != nil {
				return vt.Violationf("C13:setup", "proxy of the second object: %v", err)
			}
			b3 = space.MakeBomb(sessB, p3)
		}
		p, err := sessB.Proxy("Bomb", 1)
		if err != nil {
			return vt.Violationf("C13:setup", "proxy: %v", err)
		}
		b1 = space.MakeBomb(sessB, p)
	}
	if need["C1"] || need["C2"] {
		if cache, err = bus.NewCachedSession(env.Addr); err != nil {
			return vt.Violationf("C13:setup", "cached session: %v", err)
		}
		defer cache.Terminate()
		if err := cache.Lookup("Bomb", svc.ServiceID()); err != nil {
			return vt.Violationf("C13:setup", "lookup: %v", err)
		}
		p1, err1 := cache.Proxy("Bomb", 1)
		p2, err2 := cache.Proxy("Bomb", 1)
		if err1 != nil || err2 != nil {
			return vt.Violationf("C13:setup", "cache proxy: %v %v", err1, err2)
		}
		c1, c2 = space.MakeBomb(cache, p1), space.MakeBomb(cache, p2)
	}
	if need["L1"] || need["L2"] {
		// two proxies handed out by the server's own local session (in-process clients)
		ls := env.Server.Session()
		p1, err1 := ls.Proxy("Bomb", 1)
		p2, err2 := ls.Proxy("Bomb", 1)
		if err1 != nil || err2 != nil {
			return vt.Violationf("C13:setup", "local proxy: %v %v", err1, err2)
		}
		l1, l2 = space.MakeBomb(ls, p1), space.MakeBomb(ls, p2)
	}
	if need["raw"] {
		if rawc, err = netkit.Dial(env.Addr); err != nil || !rawc.Authenticate("u", "t", bound) {
			return vt.Violationf("C13:setup", "raw client: %v", err)
		}
		defer rawc.Close()
	}
	admin, err := netkit.Dial(env.Addr)
	if err != nil || !admin.Authenticate("u", "t", bound) {
		return vt.Violationf("C13:setup", "admin client: %v", err)
	}
	defer admin.Close()
	slots := make([]*slot, len(c.Places))
	for i, p := range c.Places {
		s := &slot{place: p, subs: map[string]*subscription{}}
		switch p {
		case "A1":
			s.proxy = a1
		case "A2":
			s.proxy = a2
		case "B":
			s.proxy = b1
		case "A3":
			s.proxy, s.obj = a3, 1
		case "B3":
			s.proxy, s.obj = b3, 1
		case "C1":
			s.proxy = c1
		case "C2":
			s.proxy = c2
		case "L1":
			s.proxy = l1
		case "L2":
			s.proxy = l2
		case "raw":
			s.raw = rawc
		}
		slots[i] = s
	}
	sid := svc.ServiceID()
	var nextHandler uint64 = 7000
	var counter int32
	emits, maxActive, changesBetweenEmits := 0, 0, 0
	lastWasEmit := false
	broken := 0 // subscribers whose connection is broken

	barrier := func(s *slot) error {
		if s.raw != nil {
			f, ok := s.raw.CallWait(sid, 1, 2, []byte{1, 0, 0, 0}, bound)
			if !ok || f.Type != netkit.Reply {
				return vt.Violationf("C13:barrier", "raw barrier call failed: %v", f)
			}
			return nil
		}
		done := make(chan error, 1)
		go func() { _, err := s.proxy.GetDelay(); done <- err }()
		select {
		case err := <-done:
			if err != nil {
				return vt.Violationf("C13:barrier", "barrier call on %s failed: %v", s.place, err)
			}
		case <-time.After(bound):
			return vt.Violationf("C13:barrier", "barrier call on %s did not return within %v", s.place, bound)
		}
		return nil
	}
	// rawEvents extracts the payloads of the event frames of a raw subscription.
	rawEvents := func(s *slot, sub *subscription) []int32 {
		var out []int32
		for _, f := range s.raw.Frames()[sub.fromIdx:] {
			if f.Type == netkit.Event && f.Service == sid && f.Object == 1 && f.Action == signalIDs[sub.signal] && f.ID == sub.regID && len(f.Payload) == 4 {
				out = append(out, int32(binary.LittleEndian.Uint32(f.Payload)))
			}
		}
		return out
	}
	// complete waits until the subscription received everything the model
	// expects (events travel through a pipeline of goroutines after the barrier).
	complete := func(s *slot, sub *subscription, why string) error {
		if err := barrier(s); err != nil {
			return err
		}
		deadline := time.Now().Add(bound)
		for {
			var got []int32
			if sub.raw {
				got = rawEvents(s, sub)
			} else {
				got = sub.got()
			}
			if len(got) >= len(sub.expected) {
				if !sameSeq(got, sub.expected) {
					return vt.Violationf(cls+":wrong-events", "%s: subscriber on %s of %s received %v, expected exactly %v", why, s.place, sub.signal, got, sub.expected)
				}
				return nil
			}
			if time.Now().After(deadline) {
				return vt.Violationf(cls+":lost-events", "%s: subscriber on %s of %s received %v, expected %v", why, s.place, sub.signal, got, sub.expected)
			}
			time.Sleep(100 * time.Microsecond)
		}
	}
	cancelSub := func(s *slot, sub *subscription, i int) error {
		if err := complete(s, sub, fmt.Sprintf("step %d before cancel", i)); err != nil {
			return err
		}
		if sub.raw {
			f, ok := s.raw.CallWait(sid, 1, 1, regPayload(1, signalIDs[sub.signal], sub.handler), bound)
			if !ok || f.Type != netkit.Reply {
				return vt.Violationf("C13:unregister-failed", "step %d: unregisterEvent answered %v", i, f)
			}
			ackIdx := len(s.raw.Frames())
			// nothing for this registration may follow the acknowledgement:
			// checked at the end against later frames
			sub.fromIdx = -ackIdx // remember where the ack was (negative marks 'cancelled')
		} else {
			sub.cancel()
			select {
			case <-sub.closed:
			case <-time.After(bound):
				return vt.Violationf(cls+":channel-not-closed", "step %d: channel of the cancelled subscription on %s still open after %v", i, s.place, bound)
			}
			if got := sub.got(); !sameSeq(got, sub.expected) {
				return vt.Violationf(cls+":wrong-events", "step %d: after cancel, subscriber on %s of %s had received %v, expected exactly %v", i, s.place, sub.signal, got, sub.expected)
			}
		}
		return nil
	}
	var cancelledRaw []*subscription
	obj2Gone := false
	type staleSub struct {
		slot *slot
		sub  *subscription
	}
	var stale []staleSub
	for i, op := range c.Ops {
		if i+1 == c.TerminateAt && !obj2Gone {
			if err := svc.Remove(obj2); err != nil {
				return vt.Violationf("C13:setup", "step %d: removing the second object: %v", i, err)
			}
			obj2Gone = true
			for _, sl := range slots {
				if sl.obj != 1 {
					continue
				}
				for sig, sub := range sl.subs {
					select {
					case <-sub.closed:
					case <-time.After(bound):
						return vt.Violationf(cls+":subscriber-not-told", "step %d: the object was removed but the channel of its subscriber on %s (%s) is still open after %v", i, sl.place, sig, bound)
					}
					if got := sub.got(); !sameSeq(got, sub.expected) {
						return vt.Violationf(cls+":wrong-events", "step %d: when its object was removed the subscriber on %s of %s had received %v, expected exactly %v", i, sl.place, sig, got, sub.expected)
					}
					stale = append(stale, staleSub{sl, sub})
					delete(sl.subs, sig)
				}
			}
			vt.Label("object-removed-while-subscribed")
		}
		s := slots[op.Slot]
		if obj2Gone && s.obj == 1 {
			if op.Kind == "cancel" {
				// a cancel function kept from before the removal is called now
				for k, st := range stale {
					if st.slot == s {
						st.sub.cancel()
						stale = append(stale[:k], stale[k+1:]...)
						vt.Label("stale-cancel")
						break
					}
				}
			}
			if op.Kind == "sub" || op.Kind == "cancel" {
				continue
			}
		}
		if obj2Gone && (op.Kind == "emit" || op.Kind == "burst" || op.Kind == "stats" || op.Kind == "trace") && op.Obj%2 == 1 {
			continue
		}
		switch op.Kind {
		case "brokensub":
			// one more connection registers for the signal of the first object
			// and then stops listening without saying so (its reading side is
			// shut down: what the server writes to it fails): whoever else is
			// subscribed, earlier or later, still gets every event
			if broken >= 2 {
				continue
			}
			bc, err := netkit.Dial(env.Addr)
			if err != nil || !bc.Authenticate("u", "t", bound) {
				return vt.Violationf("C13:setup", "raw client: %v", err)
			}
			defer bc.Close()
			nextHandler++
			if f, ok := bc.CallWait(sid, 1, 0, regPayload(1, signalIDs[op.Signal], nextHandler), bound); !ok || f.Type != netkit.Reply {
				return vt.Violationf("C13:register-failed", "step %d: registerEvent answered %v", i, f)
			}
			if bc.CloseRead() {
				broken++
				vt.Label("subscriber-with-a-broken-connection")
			}
			continue
		case "stats", "trace":
			action := uint32(81)
			if op.Kind == "trace" {
				action = 85
			}
			oid := uint32(1)
			if op.Obj%2 == 1 {
				oid = obj2
			}
			if f, ok := admin.CallWait(sid, oid, action, []byte{byte(op.N & 1)}, bound); !ok || f.Type != netkit.Reply {
				return vt.Violationf("C13:setup", "step %d: %s(%d) on object %d answered %v", i, op.Kind, op.N, oid, f)
			}
			vt.Label("stats-or-trace-toggled")
			continue
		case "sub":
			if _, active := s.subs[op.Signal]; active {
				continue
			}
			sub := &subscription{signal: op.Signal, closed: make(chan struct{})}
			if s.raw != nil {
				nextHandler++
				sub.raw, sub.handler = true, nextHandler
				id := s.raw.NextID()
				sub.regID = id
				sub.fromIdx = len(s.raw.Frames())
				if err := s.raw.Send(netkit.Frame{Type: netkit.Call, ID: id, Service: sid, Object: 1, Action: 0, Payload: regPayload(1, signalIDs[op.Signal], sub.handler)}); err != nil {
					return vt.Violationf("C13:setup", "raw send: %v", err)
				}
				if f, _, ok := s.raw.WaitFrame(sub.fromIdx, func(f netkit.Frame) bool { return f.ID == id && (f.Type == netkit.Reply || f.Type == netkit.Error) }, bound); !ok || f.Type != netkit.Reply {
					return vt.Violationf("C13:register-failed", "step %d: registerEvent answered %v", i, f)
				}
			} else {
				var err error
				if op.Signal == "boom" {
					sub.cancel, sub.ch, err = s.proxy.SubscribeBoom()
				} else {
					sub.cancel, sub.ch, err = s.proxy.SubscribeDelay()
				}
				if err != nil {
					return vt.Violationf(cls+":subscribe-error", "step %d: subscribe %s on %s: %v", i, op.Signal, s.place, err)
				}
				go sub.reader()
			}
			s.subs[op.Signal] = sub
			if lastWasEmit {
				changesBetweenEmits++
			}
			lastWasEmit = false
		case "cancel":
			sub, active := s.subs[op.Signal]
			if !active {
				continue
			}
			if err := cancelSub(s, sub, i); err != nil {
				return err
			}
			if sub.raw {
				cancelledRaw = append(cancelledRaw, sub)
			}
			delete(s.subs, op.Signal)
			if lastWasEmit {
				changesBetweenEmits++
			}
			lastWasEmit = false
			// one subscriber leaving does not disturb the others: checked by the following emits
		case "emit", "burst":
			n := 1
			if op.Kind == "burst" {
				n = op.N
			}
			active := 0
			for _, sl := range slots {
				active += len(sl.subs)
			}
			if active > maxActive {
				maxActive = active
			}
			for k := 0; k < n; k++ {
				counter++
				var err error
				if op.Signal == "boom" {
					err = bombs[op.Obj%2].Helper.SignalBoom(counter)
				} else {
					err = bombs[op.Obj%2].Helper.UpdateDelay(counter)
				}
				if err != nil && broken == 0 {
					// (with a subscriber whose connection is broken the helper
					// reports that delivery failure: the others are judged below)
					return vt.Violationf("C13:emit-error", "step %d: emitting %s(%d): %v", i, op.Signal, counter, err)
				}
				emits++
				for _, sl := range slots {
					if sub, ok := sl.subs[op.Signal]; ok && sl.obj == op.Obj%2 {
						sub.expected = append(sub.expected, counter)
					}
				}
			}
			lastWasEmit = true
			// every active subscriber has everything so far, nobody has more
			for _, sl := range slots {
				for _, sub := range sl.subs {
					if err := complete(sl, sub, fmt.Sprintf("step %d after emit", i)); err != nil {
						return err
					}
				}
			}
		}
	}
	// the cancel functions left over from the removed object are called now;
	// one more event per signal shows that nobody else was disturbed
	if len(stale) > 0 {
		for _, st := range stale {
			st.sub.cancel()
			vt.Label("stale-cancel")
		}
		for _, sig := range []string{"boom", "delay"} {
			counter++
			if sig == "boom" {
				bomb.Helper.SignalBoom(counter)
			} else {
				bomb.Helper.UpdateDelay(counter)
			}
			for _, sl := range slots {
				if sub, ok := sl.subs[sig]; ok && sl.obj == 0 {
					sub.expected = append(sub.expected, counter)
				}
			}
		}
		for _, sl := range slots {
			for _, sub := range sl.subs {
				if err := complete(sl, sub, "after the stale cancel functions were called"); err != nil {
					return err
				}
			}
		}
	}
	// end: cancel everything, sequences must be exact
	for _, s := range slots {
		for sig, sub := range s.subs {
			if err := cancelSub(s, sub, len(c.Ops)); err != nil {
				return err
			}
			if sub.raw {
				cancelledRaw = append(cancelledRaw, sub)
			}
			delete(s.subs, sig)
		}
	}
	// emit once more for every signal: nobody is subscribed, nothing may arrive on the raw connection
	counter++
	bomb.Helper.SignalBoom(counter)
	counter++
	bomb.Helper.UpdateDelay(counter)
	if rawc != nil {
		f, ok := rawc.CallWait(sid, 1, 2, []byte{1, 0, 0, 0}, bound)
		if !ok || f.Type != netkit.Reply {
			return vt.Violationf("C13:barrier", "final raw barrier failed")
		}
		frames := rawc.Frames()
		for _, sub := range cancelledRaw {
			ack := -sub.fromIdx
			for _, f := range frames[ack:] {
				if f.Type == netkit.Event && f.ID == sub.regID {
					return vt.Violationf(cls+":event-after-unregister", "an event frame for registration %d (%s) was sent after unregisterEvent was acknowledged: %v", sub.handler, sub.signal, f)
				}
			}
		}
	}
	nontrivial := maxActive >= 2 && emits >= 3 && changesBetweenEmits > 0
	labels := []string{"class=" + cls[4:], fmt.Sprintf("slots=%d", len(c.Places))}
	if need["raw"] {
		labels = append(labels, "has-raw-subscriber")
	}
	key, _ := json.Marshal(c)
	vt.Case(nontrivial, string(key), labels...)
	if nontrivial {
		vt.Sample("script", c)
	}
	return nil
}

// ---------------------------------------------------------------------------
// concurrent variant: subscribes and cancels from several goroutines while the
// emitter runs. Weaker invariant: every received sequence is duplicate-free,
// order-preserving, made of emitted values of its own signal, and contains all
// emits that happened strictly between the subscription's acknowledgement and
// its cancel request.

type ConcCase struct {
	Places []string `json:"places"` // one goroutine per entry: A1 | A2 | B | C | D
	Rounds int      `json:"rounds"`
	Emits  int      `json:"emits"`
	// Stay is how long (µs) each goroutine stays subscribed in a round; Gap is
	// the pause (µs) of the emitter between two events.
	Stay []int `json:"stay,omitempty"`
	Gap  int   `json:"gap,omitempty"`
}

func genConc(t *rapid.T) ConcCase {
	n := rapid.IntRange(2, 7).Draw(t, "subscribers")
	c := ConcCase{Rounds: rapid.IntRange(1, 8).Draw(t, "rounds"), Emits: rapid.IntRange(20, 400).Draw(t, "emits")}
	c.Gap = rapid.SampledFrom([]int{0, 0, 5, 30}).Draw(t, "gap")
	for i := 0; i < n; i++ {
		c.Places = append(c.Places, rapid.SampledFrom([]string{"A1", "A1", "A2", "B", "C", "D"}).Draw(t, "place"))
		c.Stay = append(c.Stay, rapid.SampledFrom([]int{0, 20, 50, 100, 200, 400}).Draw(t, "stay"))
	}
	return c
}

var lclock int64
var lmu sync.Mutex

func ltick() int64 { lmu.Lock(); defer lmu.Unlock(); lclock++; return lclock }

func checkConc(c ConcCase) error {
	vt.Journal(prop, "TestConcurrent", "C13:process-died", c)
	defer vt.JournalDone(prop, "TestConcurrent")
	dropsBefore := drops.Count()
	env, err := netkit.StartServer(bus.Yes{})
	if err != nil {
		return vt.Violationf("C13:setup", "server: %v", err)
	}
	defer env.Close()
	bomb, actor := probe.NewBomb("bomb", env.Journal)
	if _, err := env.Server.NewService("Bomb", actor); err != nil {
		return vt.Violationf("C13:setup", "service: %v", err)
	}
	sessA, err := session.NewAuthSession(env.Addr, "u", "t")
	if err != nil {
		return vt.Violationf("C13:setup", "session: %v", err)
	}
	defer sessA.Terminate()
	sessB, err := session.NewAuthSession(env.Addr, "u", "t")
	if err != nil {
		return vt.Violationf("C13:setup", "session: %v", err)
	}
	defer sessB.Terminate()
	sessC, err := session.NewAuthSession(env.Addr, "u", "t")
	if err != nil {
		return vt.Violationf("C13:setup", "session: %v", err)
	}
	defer sessC.Terminate()
	sessD, err := session.NewAuthSession(env.Addr, "u", "t")
	if err != nil {
		return vt.Violationf("C13:setup", "session: %v", err)
	}
	defer sessD.Terminate()
	mk := func(s bus.Session) space.BombProxy {
		p, err := s.Proxy("Bomb", 1)
		if err != nil {
			return nil
		}
		return space.MakeBomb(s, p)
	}
	proxies := map[string]space.BombProxy{"A1": mk(sessA), "A2": mk(sessA), "B": mk(sessB), "C": mk(sessC), "D": mk(sessD)}
	for k, p := range proxies {
		if p == nil {
			return vt.Violationf("C13:setup", "proxy %s", k)
		}
	}
	type emit struct {
		v          int32
		start, end int64
	}
	var emu sync.Mutex
	var emitted []emit
	stop := make(chan struct{})
	var wg sync.WaitGroup
	type subRec struct {
		place        string
		ack, creq    int64
		drain        int64
		mu           sync.Mutex
		lost         int32
		received     []int32
		closedInTime bool
	}
	var rmu sync.Mutex
	var recs []*subRec
	var firstErr error
	setErr := func(e error) {
		rmu.Lock()
		if firstErr == nil {
			firstErr = e
		}
		rmu.Unlock()
	}
	for gi, place := range c.Places {
		wg.Add(1)
		go func(gi int, place string) {
			defer wg.Done()
			px := proxies[place]
			for r := 0; r < c.Rounds; r++ {
				cancel, ch, err := px.SubscribeBoom()
				if err != nil {
					setErr(vt.Violationf("C13:concurrent:subscribe-error", "subscribe on %s: %v", place, err))
					return
				}
				rec := &subRec{place: place, ack: ltick()}
				done := make(chan struct{})
				go func() {
					for v := range ch {
						rec.mu.Lock()
						rec.received = append(rec.received, v)
						rec.mu.Unlock()
					}
					close(done)
				}()
				// stay subscribed for a few emits
				stay := 200 + gi*70
				if gi < len(c.Stay) {
					stay = c.Stay[gi]
				}
				time.Sleep(time.Duration(stay+r*10) * time.Microsecond)
				// Only events emitted before this point are required (an event still
				// in flight when cancel is requested may be dropped). A barrier call on
				// this connection puts them in the subscriber's pipeline; the harness
				// keeps reading until they have all come out before it asks to cancel.
				rec.drain = ltick()
				px.GetDelay()
				emu.Lock()
				var must []int32
				for _, e := range emitted {
					if e.start > rec.ack && e.end < rec.drain {
						must = append(must, e.v)
					}
				}
				emu.Unlock()
				deadline := time.Now().Add(bound)
				for {
					rec.mu.Lock()
					got := map[int32]bool{}
					for _, v := range rec.received {
						got[v] = true
					}
					rec.mu.Unlock()
					missing := int32(0)
					for _, v := range must {
						if !got[v] {
							missing = v
							break
						}
					}
					if missing == 0 {
						break
					}
					if time.Now().After(deadline) {
						rec.lost = missing
						break
					}
					time.Sleep(50 * time.Microsecond)
				}
				rec.creq = ltick()
				cancel()
				select {
				case <-done:
					rec.closedInTime = true
				case <-time.After(bound):
				}
				rmu.Lock()
				recs = append(recs, rec)
				rmu.Unlock()
				if !rec.closedInTime {
					return
				}
			}
		}(gi, place)
	}
	go func() {
		for i := 0; i < c.Emits; i++ {
			select {
			case <-stop:
				return
			default:
			}
			e := emit{v: int32(i + 1), start: ltick()}
			bomb.Helper.SignalBoom(e.v)
			e.end = ltick()
			emu.Lock()
			emitted = append(emitted, e)
			emu.Unlock()
			if c.Gap > 0 || c.Stay == nil {
				gap := c.Gap
				if c.Stay == nil {
					gap = 30
				}
				time.Sleep(time.Duration(gap) * time.Microsecond)
			}
		}
	}()
	wg.Wait()
	close(stop)
	time.Sleep(time.Millisecond)
	if firstErr != nil {
		return firstErr
	}
	emu.Lock()
	defer emu.Unlock()
	valid := map[int32]bool{}
	for i := 1; i <= c.Emits; i++ {
		valid[int32(i)] = true
	}
	overlapping := 0
	beyondCapacity := 0
	for _, r := range recs {
		if !r.closedInTime {
			return vt.Violationf("C13:concurrent:channel-not-closed", "subscriber on %s: channel still open %v after cancel", r.place, bound)
		}
		last := int32(0)
		got := map[int32]bool{}
		for _, v := range r.received {
			if !valid[v] {
				return vt.Violationf("C13:concurrent:foreign-event", "subscriber on %s received %d which was never emitted", r.place, v)
			}
			if v <= last {
				return vt.Violationf("C13:concurrent:duplicate-or-reordered", "subscriber on %s received %v: not strictly increasing (duplicate or reordering)", r.place, r.received)
			}
			last = v
			got[v] = true
		}
		if r.lost != 0 && drops.Count() > dropsBefore {
			// The library reported that it dropped messages because a consumer's
			// queue (100 messages) was full: this subscriber fell further behind
			// than the queue capacity, which is outside what the property covers
			// ("within the queue capacity"). Not judged as a lost event.
			beyondCapacity++
			continue
		}
		if r.lost != 0 {
			return vt.Violationf("C13:concurrent:lost-event", "subscriber on %s (acknowledged at %d) did not receive event %d, emitted before its pre-cancel barrier at %d, within %v; it received %v", r.place, r.ack, r.lost, r.drain, bound, r.received)
		}
		for _, o := range recs {
			if o != r && o.ack < r.creq && r.ack < o.creq {
				overlapping++
				break
			}
		}
	}
	nontrivial := overlapping >= 2 && len(emitted) >= 3
	key, _ := json.Marshal(c)
	labels := []string{"mode=concurrent", fmt.Sprintf("subscribers=%d", len(c.Places))}
	if beyondCapacity > 0 {
		labels = append(labels, "queue-capacity-exceeded(loss-not-judged)")
	}
	vt.Case(nontrivial, "conc"+string(key), labels...)
	return nil
}

func TestEvents(t *testing.T)     { vt.Run(t, prop, "TestEvents", genCase, checkCase) }
func TestConcurrent(t *testing.T) { vt.Run(t, prop, "TestConcurrent", genConc, checkConc) }

func TestReplay(t *testing.T) {
	vt.Replay(t, map[string]func(json.RawMessage) error{"TestEvents": vt.Decode(checkCase), "TestConcurrent": vt.Decode(checkConc), "TestSlowSubscriber": vt.Decode(checkSlow), "TestGreeting": vt.Decode(checkGreet), "TestStalledSibling": vt.Decode(checkStalled)})
}
