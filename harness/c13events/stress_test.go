package c13events

import (
	"os"
	"testing"
)

// TestStressConc re-runs one concurrent workload many times (development aid,
// enabled with VERIF_STRESS=1).
func TestStressConc(t *testing.T) {
	if os.Getenv("VERIF_STRESS") == "" {
		t.Skip()
	}
	c := ConcCase{Places: []string{"A1", "A1", "B", "A1"}, Rounds: 3, Emits: 21}
	for i := 0; i < 3000; i++ {
		if err := checkConc(c); err != nil {
			t.Fatalf("iteration %d: %v", i, err)
		}
	}
}
