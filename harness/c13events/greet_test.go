package c13events

// An object which greets its new subscribers: the moment it has acknowledged
// a registration it emits an event. That event is emitted after the
// acknowledgement of the subscription, so the new subscriber receives it like
// any other (and so does everybody already subscribed). The harness does not
// race anybody here: the only concurrency is between the greeting travelling
// to the subscriber and the subscriber's own return from Subscribe.

import (
	"encoding/binary"
	"encoding/json"
	"fmt"
	"sync"
	"testing"
	"time"

	"github.com/lugu/qiloop/bus"
	qnet "github.com/lugu/qiloop/bus/net"
	"github.com/lugu/qiloop/bus/session"
	"github.com/lugu/qiloop/examples/space"
	"pgregory.net/rapid"
	"verif/harness/netkit"
	"verif/harness/probe"
	"verif/harness/vt"
)

type greeter struct {
	bus.Actor
	bomb      *probe.Bomb
	mu        sync.Mutex
	greetings []int32
}

func (g *greeter) Receive(m *qnet.Message, from bus.Channel) error {
	err := g.Actor.Receive(m, from) // the acknowledgement has been written when this returns
	if m.Header.Type == qnet.Call && m.Header.Action == 0 && len(m.Payload) >= 8 && binary.LittleEndian.Uint32(m.Payload[4:]) == signalIDs["boom"] {
		g.mu.Lock()
		v := int32(-1 - len(g.greetings))
		g.greetings = append(g.greetings, v)
		g.mu.Unlock()
		g.bomb.Helper.SignalBoom(v)
	}
	return err
}

func (g *greeter) count() int {
	g.mu.Lock()
	defer g.mu.Unlock()
	return len(g.greetings)
}

type GreetOp struct {
	Kind string `json:"kind"` // sub | cancel | emit
	Slot int    `json:"slot"`
}

type GreetCase struct {
	// Sessions[i]: the session (0..2) slot i subscribes through; every slot has a proxy of its own
	Sessions []int     `json:"sessions"`
	Ops      []GreetOp `json:"ops"`
}

func genGreet(t *rapid.T) GreetCase {
	var c GreetCase
	n := rapid.IntRange(1, 4).Draw(t, "slots")
	for i := 0; i < n; i++ {
		c.Sessions = append(c.Sessions, rapid.IntRange(0, 2).Draw(t, "session"))
	}
	steps := rapid.IntRange(2, 30).Draw(t, "steps")
	for i := 0; i < steps; i++ {
		c.Ops = append(c.Ops, GreetOp{Kind: rapid.SampledFrom([]string{"sub", "sub", "cancel", "cancel", "emit"}).Draw(t, "kind"), Slot: rapid.IntRange(0, n-1).Draw(t, "slot")})
	}
	return c
}

func checkGreet(c GreetCase) error {
	vt.Journal(prop, "TestGreeting", "C13:process-died", c)
	defer vt.JournalDone(prop, "TestGreeting")
	env, err := netkit.StartServer(bus.Yes{})
	if err != nil {
		return vt.Violationf("C13:setup", "server: %v", err)
	}
	defer env.Close()
	bomb, actor := probe.NewBomb("bomb", env.Journal)
	g := &greeter{Actor: actor, bomb: bomb}
	if _, err := env.Server.NewService("Bomb", g); err != nil {
		return vt.Violationf("C13:setup", "service: %v", err)
	}
	sessions := map[int]bus.Session{}
	proxies := make([]space.BombProxy, len(c.Sessions))
	for i, si := range c.Sessions {
		if sessions[si] == nil {
			s, err := session.NewAuthSession(env.Addr, "u", "t")
			if err != nil {
				return vt.Violationf("C13:setup", "session: %v", err)
			}
			defer s.Terminate()
			sessions[si] = s
		}
		p, err := sessions[si].Proxy("Bomb", 1)
		if err != nil {
			return vt.Violationf("C13:setup", "proxy: %v", err)
		}
		proxies[i] = space.MakeBomb(sessions[si], p)
	}
	active := make([]*subscription, len(c.Sessions))
	emitted := int32(0)
	greeted, transitions := 0, 0
	settle := func(step int, what string) error {
		for i, s := range active {
			if s == nil {
				continue
			}
			deadline := time.Now().Add(bound)
			for len(s.got()) < len(s.expected) && time.Now().Before(deadline) {
				time.Sleep(100 * time.Microsecond)
			}
			got := s.got()
			n := len(s.expected)
			if len(got) < n {
				return vt.Violationf("C13:greeting:lost-events", "step %d (%s): subscriber %d received %v, the object emitted %v for it since its subscription was acknowledged (negative values: emitted right behind the acknowledgement of a registration)", step, what, i, got, s.expected)
			}
			if !sameSeq(got[:n], s.expected) {
				return vt.Violationf("C13:greeting:duplicate-or-reordered", "step %d (%s): subscriber %d received %v, expected %v", step, what, i, got, s.expected)
			}
		}
		return nil
	}
	for i, op := range c.Ops {
		switch op.Kind {
		case "sub":
			if active[op.Slot] != nil {
				continue
			}
			before := g.count()
			cancel, ch, err := proxies[op.Slot].SubscribeBoom()
			if err != nil {
				return vt.Violationf("C13:subscribe-error", "step %d: %v", i, err)
			}
			s := &subscription{signal: "boom", cancel: cancel, ch: ch, closed: make(chan struct{})}
			go s.reader()
			active[op.Slot] = s
			// the registration (if this subscription caused one) has been
			// acknowledged; a call to the same object through the same connection
			// is served after the greeting has been emitted (one mailbox, in order):
			// everybody subscribed gets the greeting
			if _, err := proxies[op.Slot].GetDelay(); err != nil {
				return vt.Violationf("C13:barrier", "step %d: barrier call: %v", i, err)
			}
			g.mu.Lock()
			fresh := append([]int32{}, g.greetings[before:]...)
			g.mu.Unlock()
			if len(fresh) > 0 {
				greeted++
			}
			for _, a := range active {
				if a != nil {
					a.expected = append(a.expected, fresh...)
				}
			}
		case "cancel":
			s := active[op.Slot]
			if s == nil {
				continue
			}
			if err := settle(i, "before cancel"); err != nil {
				return err
			}
			s.cancel()
			select {
			case <-s.closed:
			case <-time.After(bound):
				return vt.Violationf("C13:channel-not-closed", "step %d: channel of subscriber %d not closed %v after cancel", i, op.Slot, bound)
			}
			active[op.Slot] = nil
			transitions++
		case "emit":
			emitted++
			if err := bomb.Helper.SignalBoom(emitted); err != nil {
				return vt.Violationf("C13:emit-error", "step %d: %v", i, err)
			}
			for _, a := range active {
				if a != nil {
					a.expected = append(a.expected, emitted)
				}
			}
		}
		if err := settle(i, op.Kind); err != nil {
			return err
		}
	}
	// nothing else arrives: a call through every connection comes back after the events
	for _, p := range proxies {
		p.GetDelay()
	}
	time.Sleep(time.Millisecond)
	for i, s := range active {
		if s != nil {
			if got := s.got(); len(got) != len(s.expected) {
				return vt.Violationf("C13:greeting:duplicate-or-reordered", "subscriber %d received %v, expected %v", i, got, s.expected)
			}
			s.cancel()
		}
	}
	key, _ := json.Marshal(c)
	vt.Case(greeted >= 2 && transitions >= 1, "greet"+string(key), fmt.Sprintf("greeted-registrations=%d", min(greeted, 5)))
	return nil
}

func TestGreeting(t *testing.T) { vt.Run(t, prop, "TestGreeting", genGreet, checkGreet) }
