// Package c08trunc decides C08: a truncated encoding is never accepted.
package c08trunc

import (
	"bytes"
	"encoding/hex"
	"encoding/json"
	"fmt"
	"io"
	"reflect"
	"sort"
	"strings"
	"testing"
	"time"

	"github.com/lugu/qiloop/bus"
	"github.com/lugu/qiloop/bus/directory"
	qnet "github.com/lugu/qiloop/bus/net"
	"github.com/lugu/qiloop/meta/signature"
	"github.com/lugu/qiloop/type/encoding"
	"github.com/lugu/qiloop/type/object"
	"github.com/lugu/qiloop/type/value"
	"pgregory.net/rapid"
	"verif/harness/bridge"
	"verif/harness/gen"
	"verif/harness/hio"
	"verif/harness/ref"
	"verif/harness/vt"
)

const prop = "C08"

func TestMain(m *testing.M) {
	vt.Watchdog = 30 * time.Second
	vt.Main(m)
}

// Case is one valid encoding for one decoder; every strict prefix is tried.
type Case struct {
	Decoder string `json:"decoder"`
	Sig     string `json:"sig"` // type of the encoded datum
	Hex     string `json:"hex"`
	Chunks  []int  `json:"chunks"`
	EOFWith bool   `json:"eof_with_data"`
	Desc    string `json:"desc"`
	// Big encodings (decoder message or value): the body is BigLen generated
	// bytes instead of Hex, and only the listed cut positions are tried.
	BigLen int   `json:"big_len,omitempty"`
	Cuts   []int `json:"cuts,omitempty"`
	// CutsFirst: the truncated prefixes are decoded before the complete
	// encoding is (whatever a decoder learns about a type from its first,
	// failing, attempt must not make it lenient afterwards)
	CutsFirst bool `json:"cuts_first,omitempty"`
	// Source: the concrete type of the reader the decoder is given (hio.SourceKinds;
	// empty: the fragmenting reader)
	Source string `json:"source,omitempty"`
	// Used (reflect decoder): hex of the complete encoding, decoded into the
	// destination before each truncated prefix is
	Used string `json:"used,omitempty"`
	// Converted (decoder call2, the place where every generated proxy decodes the
	// answer to a call): the caller expects a type which differs from the one
	// the service declares (wider integers, other struct names), so that the
	// answer is decoded as declared and converted afterwards
	Converted bool `json:"converted,omitempty"`
}

// cannedClient is a bus.Client whose every call is answered with the same bytes.
type cannedClient struct{ reply []byte }

func (c cannedClient) Call(cancel <-chan struct{}, serviceID, objectID, methodID uint32, payload []byte) ([]byte, error) {
	return c.reply, nil
}
func (c cannedClient) Subscribe(serviceID, objectID, actionID uint32) (func(), chan []byte, error) {
	return func() {}, make(chan []byte), nil
}
func (c cannedClient) OnDisconnect(cb func(error)) error      { return nil }
func (c cannedClient) State(signal string, increment int) int { return 0 }
func (c cannedClient) Channel() bus.Channel                   { return bus.NewContext(nil) }

// widen returns a type into which every value of t converts (wider integers
// and floats, renamed structs) and whether its signature differs from t's.
func widen(t *ref.Type, changed *bool) *ref.Type {
	n := *t
	up := map[ref.Kind]ref.Kind{ref.KInt8: ref.KInt16, ref.KInt16: ref.KInt32, ref.KInt32: ref.KInt64,
		ref.KUint8: ref.KUint16, ref.KUint16: ref.KUint32, ref.KUint32: ref.KUint64, ref.KFloat32: ref.KFloat64}
	if k, ok := up[t.Kind]; ok {
		n.Kind = k
		*changed = true
	}
	if t.Elem != nil {
		n.Elem = widen(t.Elem, changed)
	}
	if t.Kind == ref.KStruct && !strings.Contains(t.Name, "<") {
		n.Name = t.Name + "W"
		*changed = true
	}
	if len(t.Members) > 0 {
		n.Members = make([]*ref.Type, len(t.Members))
		for i, m := range t.Members {
			n.Members[i] = widen(m, changed)
		}
	}
	return &n
}

// bigData builds the encoding of a big case: a message with a BigLen byte
// payload, or a dynamic value holding a raw buffer (or a string) of BigLen bytes.
func bigData(c Case) []byte {
	body := make([]byte, c.BigLen)
	for i := range body {
		body[i] = 'a' + byte(i%23)
	}
	switch c.Decoder {
	case "message":
		w := &hio.RecWriter{}
		m := qnet.NewMessage(qnet.NewHeader(qnet.Call, 2, 1, 100, 7), body)
		m.Write(w)
		return w.Bytes()
	default:
		ty := ref.Scalar(ref.KRaw)
		if c.Sig == "s" {
			return ref.EncodeDyn(ref.Dyn{T: ref.Scalar(ref.KString), V: string(body)})
		}
		return ref.EncodeDyn(ref.Dyn{T: ty, V: body})
	}
}

const serviceInfoSig = "(sIsI[s]ss)<ServiceInfo,name,serviceId,machineId,processId,endpoints,sessionId,objectUid>"
const capMapSig = "{sm}"

var decoders = []string{"message", "value", "reader", "opaque", "reflect", "metaobject", "objectref", "serviceinfo", "capmap", "call2"}

func typeOpts() gen.TypeOpts {
	return gen.TypeOpts{Depth: 3, Width: 3,
		Leaves:  append(append([]ref.Kind{}, gen.AllScalars...), ref.KValue, ref.KString, ref.KString),
		MapKeys: gen.KeyScalars, Structs: true, Tuples: true, Maps: true, Lists: true, Template: false, ZeroMem: true, CompositeKeys: true, Wide: true}
}

func genCase(t *rapid.T) Case {
	if rapid.IntRange(0, 24).Draw(t, "big") == 0 {
		return genBig(t)
	}
	dec := rapid.SampledFrom(decoders).Draw(t, "decoder")
	vo := gen.DefaultValueOpts()
	vo.MaxLen = 3
	vo.DynDepth = 2
	plan := gen.FragPlan().Draw(t, "plan")
	c := Case{Decoder: dec, Chunks: plan.Chunks, EOFWith: plan.EOFWith, Source: rapid.SampledFrom(hio.SourceKinds).Draw(t, "source")}
	var ty *ref.Type
	var v interface{}
	switch dec {
	case "message":
		// header + payload; the payload is opaque bytes
		n := rapid.SampledFrom([]int{0, 1, 5, 28, 60}).Draw(t, "plen")
		payload := rapid.SliceOfN(rapid.Byte(), n, n).Draw(t, "payload")
		h := qnet.NewHeader(uint8(rapid.IntRange(1, 8).Draw(t, "type")), rapid.Uint32().Draw(t, "svc"), rapid.Uint32().Draw(t, "obj"), rapid.Uint32().Draw(t, "act"), rapid.Uint32().Draw(t, "id"))
		m := qnet.NewMessage(h, payload)
		w := &hio.RecWriter{}
		if err := m.Write(w); err != nil {
			t.Fatalf("cannot build message: %v", err)
		}
		c.Hex = hex.EncodeToString(w.Bytes())
		c.Desc = fmt.Sprintf("message with %d byte payload", n)
		return c
	case "value":
		d := gen.DrawDyn(t, vo)
		ty, v = ref.Scalar(ref.KValue), d
	case "opaque":
		o := typeOpts()
		inner := gen.DrawType(t, o)
		if inner.IsScalar() {
			inner = ref.TupleOf(inner, ref.Scalar(ref.KString))
		}
		ty, v = ref.Scalar(ref.KValue), ref.Dyn{T: inner, V: gen.DrawValue(t, inner, vo)}
	case "call2":
		o := typeOpts()
		o.Leaves = gen.AllScalars
		o.ZeroMem = false
		ty = gen.DrawType(t, o)
		v = gen.DrawValue(t, ty, vo)
		c.Converted = rapid.Bool().Draw(t, "converted")
	case "reader", "reflect":
		ty = gen.DrawType(t, typeOpts())
		v = gen.DrawValue(t, ty, vo)
	case "metaobject":
		ty = ref.MetaObjectType
		v = gen.DrawValue(t, ty, vo)
	case "objectref":
		ty = ref.ObjectRefType
		v = gen.DrawValue(t, ty, vo)
	case "serviceinfo":
		ty, _ = ref.ParseSig(serviceInfoSig)
		v = gen.DrawValue(t, ty, vo)
	case "capmap":
		ty, _ = ref.ParseSig(capMapSig)
		v = gen.DrawValue(t, ty, vo)
	}
	c.Sig = ty.Sig()
	c.CutsFirst = rapid.Bool().Draw(t, "cutsfirst")
	enc := ref.Encode(ty, v)
	c.Hex = hex.EncodeToString(enc)
	if n := len(enc); n > 1200 {
		// a long encoding (many members, long strings): every cut of the first
		// and of the last 50 bytes, and a sample of those between (a decode of
		// such a datum parses a signature of a thousand characters: milliseconds)
		seen := map[int]bool{}
		add := func(k int) {
			if k >= 0 && k < n && !seen[k] {
				seen[k] = true
				c.Cuts = append(c.Cuts, k)
			}
		}
		for k := 0; k < 50; k++ {
			add(k)
			add(n - 1 - k)
		}
		for i := 0; i < 60; i++ {
			add(rapid.IntRange(50, n-50).Draw(t, "cut"))
		}
		sort.Ints(c.Cuts)
	}
	if dec == "reflect" && rapid.Bool().Draw(t, "useddest") {
		c.Used = c.Hex
	}
	c.Desc = ref.Render(v)
	if len(c.Desc) > 300 {
		c.Desc = c.Desc[:300] + "..."
	}
	return c
}

// genBig: an encoding of tens or hundreds of kilobytes, cut where chunked or
// buffered readers are most likely to stop: at and around multiples of powers
// of two (counted from the start of the body and of the stream), near both
// ends, and at a few random places.
func genBig(t *rapid.T) Case {
	plan := gen.FragPlan().Draw(t, "plan")
	c := Case{Decoder: rapid.SampledFrom([]string{"message", "message", "value"}).Draw(t, "bigdecoder"), Chunks: plan.Chunks, EOFWith: plan.EOFWith, Source: rapid.SampledFrom(hio.SourceKinds).Draw(t, "source")}
	if c.Decoder == "value" {
		c.Sig = rapid.SampledFrom([]string{"r", "s"}).Draw(t, "bigkind")
	}
	c.BigLen = rapid.SampledFrom([]int{4097, 8192, 10000, 65535, 65536, 65537, 100000, 131072, 131073, 200000}).Draw(t, "biglen")
	total := len(bigData(c))
	head := total - c.BigLen
	add := func(k int) {
		if k >= 0 && k < total {
			c.Cuts = append(c.Cuts, k)
		}
	}
	for _, unit := range []int{4096, 65536} {
		for m := 0; m*unit <= c.BigLen; m++ {
			for _, d := range []int{-1, 0, 1} {
				add(head + m*unit + d)
				add(m*unit + d)
			}
			if m > 6 {
				m += rapid.IntRange(0, 8).Draw(t, "skip")
			}
		}
	}
	for _, k := range []int{0, 1, head - 1, head, head + 1, total - 2, total - 1} {
		add(k)
	}
	for i := 0; i < 8; i++ {
		add(rapid.IntRange(0, total-1).Draw(t, "cut"))
	}
	c.Desc = fmt.Sprintf("%s with a %d byte body", c.Decoder, c.BigLen)
	return c
}

// decode runs the named decoder over r; it returns the decoder's error and a
// recovered panic (a panic is C07's business but is reported here as well).
func decode(c Case, ty *ref.Type, r io.Reader) (err error, panicked interface{}) {
	defer func() {
		if p := recover(); p != nil {
			panicked = p
		}
	}()
	switch c.Decoder {
	case "message":
		var m qnet.Message
		return m.Read(r), nil
	case "value", "opaque":
		_, err = value.NewValue(r)
	case "reader":
		var st signature.Type
		if st, err = signature.Parse(c.Sig); err == nil {
			_, err = st.Reader().Read(r)
		} else {
			panicked = fmt.Sprintf("Parse(%q): %v", c.Sig, err)
		}
	case "reflect":
		ptr := reflect.New(bridge.GoType(ty, nil))
		if c.Used != "" {
			// the destination already holds a value of the type (the complete
			// encoding decoded into it): a truncated one is refused all the same
			full, _ := hex.DecodeString(c.Used)
			if e := encoding.NewDecoder(encoding.DefaultCap(), bytes.NewReader(full)).Decode(ptr.Interface()); e != nil {
				ptr = reflect.New(bridge.GoType(ty, nil))
			}
		}
		err = encoding.NewDecoder(encoding.DefaultCap(), r).Decode(ptr.Interface())
	case "call2":
		reply, _ := io.ReadAll(r)
		want, changed := ty, false
		if c.Converted {
			want = widen(ty, &changed)
		}
		dst := reflect.New(bridge.GoType(want, nil))
		meta := object.MetaObject{Methods: map[uint32]object.MetaMethod{
			100: {Uid: 100, Name: "get", ParametersSignature: "()", ReturnSignature: c.Sig},
		}}
		proxy := bus.NewProxy(cannedClient{reply}, meta, 7, 1)
		err = proxy.Call2("get", bus.NewParams("()"), bus.NewResponse(want.Sig(), dst.Interface()))
		if changed {
			vt.Label("call2=converted")
		}
	case "metaobject":
		_, err = object.ReadMetaObject(r)
	case "objectref":
		_, err = object.ReadObjectReference(r)
	case "serviceinfo":
		_, err = directory.ReadServiceInfo(r)
	case "capmap":
		_, err = bus.ReadCapabilityMap(r)
	default:
		panicked = "unknown decoder " + c.Decoder
	}
	return
}

func spanAt(spans []ref.Span, k int) (idx int, s ref.Span, ok bool) {
	for i, sp := range spans {
		if sp.Start <= k && k < sp.End {
			return i, sp, true
		}
	}
	return 0, ref.Span{}, false
}

func checkCase(c Case) error {
	data, err := hex.DecodeString(c.Hex)
	if err != nil {
		return vt.Violationf("C08:bad-case", "hex: %v", err)
	}
	if c.BigLen > 0 {
		data = bigData(c)
	}
	var ty *ref.Type
	var spans []ref.Span
	if c.BigLen > 0 && c.Decoder != "message" {
		head := len(data) - c.BigLen
		spans = []ref.Span{{Start: 0, End: head - 4, What: "signature"}, {Start: head - 4, End: head, What: "length"}, {Start: head, End: len(data), What: "body"}}
	} else if c.Decoder == "message" {
		spans = []ref.Span{{Start: 0, End: 4, What: "magic"}, {Start: 4, End: 28, What: "header"}, {Start: 28, End: len(data), What: "payload"}}
	} else {
		if ty, err = ref.ParseSig(c.Sig); err != nil {
			return vt.Violationf("C08:bad-case", "sig: %v", err)
		}
		v, n, err := ref.Decode(ty, data)
		if err != nil || n != len(data) {
			return vt.Violationf("C08:bad-case", "reference decode: %v", err)
		}
		var e ref.Encoder
		e.Encode(ty, v)
		spans = e.Spans
	}
	if len(data) == 0 {
		vt.Case(false, c.Decoder+c.Hex, "decoder="+c.Decoder, "zero-length")
		return nil
	}
	// the complete encoding must be accepted (otherwise the cuts prove nothing)
	complete := func() error {
		src, _ := hio.Source(c.Source, data, c.Chunks, c.EOFWith)
		if err, p := decode(c, ty, src); err != nil || p != nil {
			return vt.Violationf("C08:"+c.Decoder+":complete-rejected", "%s decoder rejects the complete encoding of %s %s: %v %v", c.Decoder, c.Sig, c.Desc, err, p)
		}
		return nil
	}
	if !c.CutsFirst {
		if err := complete(); err != nil {
			return err
		}
	}
	nontrivialCuts := 0
	cuts := c.Cuts
	if c.BigLen == 0 && len(cuts) == 0 {
		cuts = make([]int, len(data))
		for k := range cuts {
			cuts[k] = k
		}
	}
	for _, k := range cuts {
		if k < 0 || k >= len(data) {
			continue
		}
		r, _ := hio.Source(c.Source, data[:k], c.Chunks, c.EOFWith)
		err, p := decode(c, ty, r)
		idx, sp, _ := spanAt(spans, k)
		if p != nil {
			return vt.Violationf("C08:"+c.Decoder+":panic", "%s decoder panicked on prefix %d/%d of %s %s: %v", c.Decoder, k, len(data), c.Sig, c.Desc, p)
		}
		if err == nil {
			return vt.Violationf("C08:"+c.Decoder+":accepted:"+sp.What, "%s decoder accepted the first %d of %d bytes of %s %s (cut inside a %s)", c.Decoder, k, len(data), c.Sig, c.Desc, sp.What)
		}
		vt.Label("cut-in=" + sp.What)
		if idx > 0 && k > sp.Start {
			nontrivialCuts++
		}
	}
	if c.CutsFirst {
		if err := complete(); err != nil {
			return err
		}
		vt.Label("cuts-before-the-complete-encoding")
	}
	vt.LabelN("cuts", int64(len(cuts)))
	if c.BigLen > 0 {
		vt.Label("big-encoding")
	}
	vt.LabelN("cuts-strictly-inside-a-later-field", int64(nontrivialCuts))
	nontrivial := len(spans) >= 2 && nontrivialCuts > 0
	srcKind := c.Source
	if srcKind == "" {
		srcKind = "frag"
	}
	vt.Case(nontrivial, fmt.Sprintf("%s|%s|%s|%d|%v", c.Decoder, c.Sig, c.Hex, c.BigLen, c.Cuts), "decoder="+c.Decoder, "source="+srcKind)
	if nontrivial {
		vt.Sample("encoding", map[string]interface{}{"decoder": c.Decoder, "sig": c.Sig, "value": c.Desc, "hex": c.Hex, "cuts": len(cuts)})
	}
	return nil
}

func TestTruncation(t *testing.T) { vt.Run(t, prop, "TestTruncation", genCase, checkCase) }

func TestReplay(t *testing.T) {
	vt.Replay(t, map[string]func(json.RawMessage) error{"TestTruncation": vt.Decode(checkCase)})
}
