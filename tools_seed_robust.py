#!/usr/bin/env python3
"""Detection robustness of the quick tier (development aid, not a registered check).

For every confirmed seeded change under /verif/seeded/<id>/ apply patch.diff to
/repo, run `./vcheck <property> quick` at several VERIF_SEED values, undo the
patch, and write how many runs raised a VIOLATION to seeded/ROBUSTNESS.json.
usage: tools_seed_robust.py [seed values...]   (default 2 3 4)
"""
import glob, json, os, subprocess, sys

VERIF = "/verif"
REPO = "/repo"
seeds = [int(a) for a in sys.argv[1:]] or [2, 3, 4]
out = {}
for d in sorted(glob.glob(os.path.join(VERIF, "seeded", "C*-*"))):
    sid = os.path.basename(d)
    meta = json.load(open(os.path.join(d, "meta.json")))
    if not meta.get("verification", {}).get("confirmed"):
        continue
    if subprocess.run("git status --porcelain", cwd=REPO, shell=True, capture_output=True, text=True).stdout.strip():
        print("/repo not clean"); sys.exit(2)
    if subprocess.run(["git", "apply", os.path.join(d, "patch.diff")], cwd=REPO).returncode != 0:
        out[sid] = "patch does not apply"; continue
    hits = []
    try:
        for s in seeds:
            p = subprocess.run([os.path.join(VERIF, "vcheck"), meta["property"], "quick"], cwd=VERIF,
                               env=dict(os.environ, VERIF_SEED=str(s)), capture_output=True, text=True, timeout=3600)
            hits.append(p.returncode == 1)
    finally:
        subprocess.run("git checkout -- .", cwd=REPO, shell=True)
    out[sid] = {"seeds": seeds, "detected": hits}
    print(sid, hits, flush=True)
    json.dump(out, open(os.path.join(VERIF, "seeded", "ROBUSTNESS.json"), "w"), indent=1)
print("FINISHED")
