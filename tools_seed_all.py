#!/usr/bin/env python3
"""Re-evaluate every stored seeded change with the machinery as it stands
(development aid): tools_seed_iso.evaluate for each seeded/<id>, several at a
time, each against the check which is expected to catch it (meta.json
"caught_by", default: its own property); the outcome is stored in meta.json
("checks_run") and summarised on stdout.
usage: tools_seed_all.py [--jobs N] [--seeds 1,2,3] [id-prefix ...]
"""
import concurrent.futures, glob, json, os, sys
import tools_seed_iso

def one(args):
    sid, seeds = args
    d = os.path.join("/verif/seeded", sid)
    meta = json.load(open(os.path.join(d, "meta.json")))
    checks = meta.get("caught_by") or [meta["property"]]
    hits = tools_seed_iso.evaluate(sid, seeds=seeds, tier="quick", checks=checks)
    if isinstance(hits, str):
        return sid, None, hits
    return sid, hits, None

def main():
    args = sys.argv[1:]
    jobs, seeds, prefixes = 4, (1,), []
    while args:
        a = args.pop(0)
        if a == "--jobs":
            jobs = int(args.pop(0))
        elif a == "--seeds":
            seeds = tuple(int(x) for x in args.pop(0).split(","))
        else:
            prefixes.append(a)
    ids = sorted(os.path.basename(d) for d in glob.glob("/verif/seeded/C*-*"))
    if prefixes:
        ids = [i for i in ids if any(i.startswith(p) for p in prefixes)]
    missed = []
    with concurrent.futures.ThreadPoolExecutor(max_workers=jobs) as ex:
        for sid, hits, err in ex.map(one, [(i, seeds) for i in ids]):
            if err:
                print(sid, "ERROR", err, flush=True)
                missed.append(sid)
                continue
            p = os.path.join("/verif/seeded", sid, "meta.json")
            meta = json.load(open(p))
            if seeds == (1,):
                meta["checks_run"] = {h["check"]: {"exit": h["exit"], "detected": h["exit"] == 1, "lines": h["lines"]} for h in hits}
                json.dump(meta, open(p, "w"), indent=1)
            det = [h["exit"] == 1 for h in hits]
            print(sid, "caught" if any(det) and (len(seeds) == 1 or all(det)) else "MISSED", [(h["check"], h["seed"], h["exit"], h["classes"][:2]) for h in hits], flush=True)
            if not all(det):
                missed.append(sid)
    print("FINISHED; not caught at every seed:", missed)

if __name__ == "__main__":
    main()
