#!/usr/bin/env python3
"""Mutation sweep (development aid, not a registered check).

For a sample of small syntactic mutations (tools/mutgen: flipped comparisons,
negated conditions, dropped calls / assignments / defers, lock pairs removed,
integer literals +-1, `return err` -> `return nil`, ...) of the files the
properties are anchored in: does the mutant build, does the repository's own
suite still pass with it, and if so does the quick tier of the checks of the
properties anchored in that file raise a VIOLATION?  Mutants which survive
both are listed for triage (equivalent mutant, or a hole in a check).

Everything happens in scratch copies (a worktree of /repo and a copy of /verif
per worker, under /tmp, removed at the end); /repo is never modified.

usage: tools_mutate.py [--jobs N] [--per-file K] [--seed S] [--files a.go,b.go] [--kinds k1,k2] [--out file]
"""
import concurrent.futures, fcntl, json, os, random, re, shutil, subprocess, sys, tempfile, threading, time

VERIF, REPO = "/verif", "/repo"
ENV = dict(os.environ, GOFLAGS="-mod=readonly", GOPROXY="off", GOSUMDB="off", GOTOOLCHAIN="local")
SUITE_LOCK = "/tmp/mutate-suite.lock"


def sh(cmd, cwd=None, env=None, timeout=3600):
    try:
        p = subprocess.run(cmd, cwd=cwd, shell=True, env=env or ENV, capture_output=True, text=True, timeout=timeout)
        return p.returncode, p.stdout + p.stderr
    except subprocess.TimeoutExpired:
        return 124, "timeout"


def anchors():
    """file -> sorted list of property ids anchored in it"""
    m = {}
    for line in open(os.path.join(VERIF, "properties.jsonl")):
        if not line.strip():
            continue
        d = json.loads(line)
        for f in d["anchors"].get("files", []):
            if f.endswith(".go"):
                m.setdefault(f, []).append(d["id"])
    return m


class Worker:
    def __init__(self, k, mutgen):
        self.base = tempfile.mkdtemp(prefix="mut%d-" % k)
        self.repo, self.verif = os.path.join(self.base, "repo"), os.path.join(self.base, "verif")
        self.mutgen = mutgen
        rc, out = sh("git worktree add -q --detach %s HEAD" % self.repo, REPO)
        assert rc == 0, out
        sh("rsync -a --exclude .git --exclude found --exclude seeded --exclude mutation %s/ %s/" % (VERIF, self.verif))
        for f in ["harness/go.mod", "harness/c05gen/c05_test.go", "harness/c18idl/fuzz_test.go", "harness/c07total/c07_test.go"]:
            p = os.path.join(self.verif, f)
            s = open(p).read().replace("=> /repo", "=> " + self.repo).replace('"/repo/', '"' + self.repo + '/')
            open(p, "w").write(s)

    def close(self):
        sh("git worktree remove --force %s" % self.repo, REPO)
        shutil.rmtree(self.base, ignore_errors=True)

    def run(self, mut, checks):
        f = mut["file"]
        res = dict(mut)
        path = os.path.join(self.repo, f)
        src = subprocess.run([self.mutgen, os.path.join(REPO, f), str(mut["index"])], capture_output=True).stdout
        try:
            open(path, "wb").write(src)
            rc, out = sh("go build ./...", self.repo, timeout=600)
            if rc != 0:
                res["outcome"] = "does-not-build"
                return res
            t0 = time.time()
            rc, out = sh("go test -vet=off -timeout 300s ./...", self.repo, timeout=1200)
            if rc != 0:
                # the repository's own flaky tests (fixed TCP ports, timing): once more, alone
                failed = sorted(set(re.findall(r"^(?:FAIL|---)\s+(github.com/lugu/qiloop\S*)", out, re.M)))
                with open(SUITE_LOCK, "w") as lk:
                    fcntl.flock(lk, fcntl.LOCK_EX)
                    rc, out = sh("go test -vet=off -count=1 -timeout 300s %s" % (" ".join(failed) or "./..."), self.repo, timeout=1200)
            res["suite_s"] = round(time.time() - t0, 1)
            if rc != 0:
                res["outcome"] = "killed-by-suite"
                m = re.search(r"--- FAIL: (\S+)", out)
                res["by"] = m.group(1) if m else ("timeout" if rc == 124 else "?")
                return res
            res["checks"] = {}
            for c in checks:
                env = dict(os.environ, VERIF_SEED="1", VERIF_REPO=self.repo)
                try:
                    p = subprocess.run(["./vcheck", c, "quick"], cwd=self.verif, env=env, capture_output=True, text=True, timeout=3000)
                    rc, text = p.returncode, p.stdout
                except subprocess.TimeoutExpired:
                    rc, text = 124, ""
                cls = [l.split("violation class=")[1].split(" ")[0].rstrip(":") for l in text.splitlines() if "violation class=" in l]
                res["checks"][c] = {"exit": rc, "classes": cls[:3]}
                if rc == 1:
                    res["outcome"] = "caught"
                    res["by"] = c
                    return res
            res["outcome"] = "survived"
            return res
        finally:
            sh("git checkout -- %s" % f, self.repo)


def main():
    args = sys.argv[1:]
    jobs, per_file, seed, files, kinds, out = 4, 12, 1, None, None, os.path.join(VERIF, "mutation", "results.jsonl")
    while args:
        a = args.pop(0)
        if a == "--jobs":
            jobs = int(args.pop(0))
        elif a == "--per-file":
            per_file = int(args.pop(0))
        elif a == "--seed":
            seed = int(args.pop(0))
        elif a == "--files":
            files = args.pop(0).split(",")
        elif a == "--kinds":
            kinds = args.pop(0).split(",")
        elif a == "--out":
            out = args.pop(0)
    os.makedirs(os.path.dirname(out), exist_ok=True)
    scratch = tempfile.mkdtemp(prefix="mutgen-")
    mutgen = os.path.join(scratch, "mutgen")
    rc, o = sh("go build -o %s ." % mutgen, os.path.join(VERIF, "tools", "mutgen"), env=dict(ENV, GOFLAGS="-mod=mod"))
    assert rc == 0, o
    anch = anchors()
    rnd = random.Random(seed)
    done = set()
    if os.path.exists(out):
        for l in open(out):
            d = json.loads(l)
            done.add((d["file"], d["kind"], d["line"], d["desc"]))
    work = []
    for f in sorted(files or anch):
        if not os.path.exists(os.path.join(REPO, f)) or f.endswith("_gen.go"):
            continue
        muts = json.loads(subprocess.run([mutgen, os.path.join(REPO, f)], capture_output=True, text=True).stdout)
        for i, m in enumerate(muts):
            m["file"], m["index"] = f, i
        if kinds:
            muts = [m for m in muts if m["kind"] in kinds]
        muts = [m for m in muts if (m["file"], m["kind"], m["line"], m["desc"]) not in done]
        rnd.shuffle(muts)
        for m in muts[:per_file]:
            work.append((m, anch.get(f, [])))
    rnd.shuffle(work)
    print("%d mutants to evaluate" % len(work), flush=True)
    workers = [Worker(k, mutgen) for k in range(jobs)]
    free = list(workers)
    lock = threading.Lock()
    counts = {}

    def task(item):
        mut, checks = item
        with lock:
            w = free.pop()
        try:
            res = w.run(mut, checks)
        except Exception as e:  # pragma: no cover
            res = dict(mut, outcome="error", error=str(e))
        finally:
            with lock:
                free.append(w)
        with lock:
            counts[res["outcome"]] = counts.get(res["outcome"], 0) + 1
            with open(out, "a") as fo:
                fo.write(json.dumps(res) + "\n")
            print("%-16s %s:%d %s [%s] %s" % (res["outcome"], res["file"], res["line"], res["kind"], res.get("by", ""), res["desc"][:80]), flush=True)
        return res

    try:
        with concurrent.futures.ThreadPoolExecutor(max_workers=jobs) as ex:
            list(ex.map(task, work))
    finally:
        for w in workers:
            w.close()
        shutil.rmtree(scratch, ignore_errors=True)
    print("FINISHED", counts)


if __name__ == "__main__":
    main()
