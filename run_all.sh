#!/bin/sh
# Runs every check of one tier sequentially and validates the evidence (development aid).
tier=${1:-quick}
cd "$(dirname "$0")"
rc=0
for p in $(python3 -c "import json;print(' '.join(sorted(json.load(open('checks.json'))['checks'])))"); do
  ./vcheck $p $tier > /tmp/vcheck-$tier-$p.out 2>&1
  code=$?
  tail -1 /tmp/vcheck-$tier-$p.out | sed "s/^/[rc=$code] /"
  grep -h "^VIOLATION\|INCONCLUSIVE" /tmp/vcheck-$tier-$p.out
  [ $code -ne 0 ] && rc=1
done
python3-vt tools_validate.py | tail -3
exit $rc
