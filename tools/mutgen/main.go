// mutgen enumerates small syntactic mutations of one Go source file
// (development aid for /verif: measuring which realistic breakages the
// checks notice). Usage: mutgen <file.go>            -> JSON list of mutants
//                        mutgen <file.go> <index>    -> mutated source on stdout
package main

import (
	"encoding/json"
	"fmt"
	"go/ast"
	"go/parser"
	"go/token"
	"os"
	"sort"
	"strconv"
	"strings"
)

type edit struct{ from, to int; text string }

type mutant struct {
	Kind  string `json:"kind"`
	Line  int    `json:"line"`
	Func  string `json:"func"`
	Desc  string `json:"desc"`
	edits []edit
}

var swaps = map[token.Token][]string{
	token.EQL: {"!="}, token.NEQ: {"=="},
	token.LSS: {"<=", ">"}, token.LEQ: {"<"}, token.GTR: {">=", "<"}, token.GEQ: {">"},
	token.LAND: {"||"}, token.LOR: {"&&"},
	token.ADD: {"-"}, token.SUB: {"+"},
}

func main() {
	path := os.Args[1]
	src, err := os.ReadFile(path)
	if err != nil {
		panic(err)
	}
	fset := token.NewFileSet()
	f, err := parser.ParseFile(fset, path, src, parser.ParseComments)
	if err != nil {
		panic(err)
	}
	off := func(p token.Pos) int { return fset.Position(p).Offset }
	line := func(p token.Pos) int { return fset.Position(p).Line }
	text := func(n ast.Node) string { return string(src[off(n.Pos()):off(n.End())]) }
	short := func(s string) string {
		s = strings.Join(strings.Fields(s), " ")
		if len(s) > 90 {
			s = s[:90] + "..."
		}
		return s
	}
	var muts []mutant
	for _, d := range f.Decls {
		fd, ok := d.(*ast.FuncDecl)
		if !ok || fd.Body == nil {
			continue
		}
		fname := fd.Name.Name
		if fd.Recv != nil && len(fd.Recv.List) > 0 {
			fname = short(text(fd.Recv.List[0].Type)) + "." + fname
		}
		add := func(kind string, pos token.Pos, desc string, e ...edit) {
			muts = append(muts, mutant{Kind: kind, Line: line(pos), Func: fname, Desc: desc, edits: e})
		}
		// paired lock removal
		locks := map[string][]ast.Stmt{}
		ast.Inspect(fd.Body, func(n ast.Node) bool {
			var call *ast.CallExpr
			var st ast.Stmt
			switch s := n.(type) {
			case *ast.ExprStmt:
				if c, ok := s.X.(*ast.CallExpr); ok {
					call, st = c, s
				}
			case *ast.DeferStmt:
				call, st = s.Call, s
			}
			if call != nil {
				if sel, ok := call.Fun.(*ast.SelectorExpr); ok {
					switch sel.Sel.Name {
					case "Lock", "Unlock", "RLock", "RUnlock":
						key := text(sel.X)
						locks[key] = append(locks[key], st)
					}
				}
			}
			return true
		})
		keys := []string{}
		for k := range locks {
			keys = append(keys, k)
		}
		sort.Strings(keys)
		for _, k := range keys {
			var es []edit
			for _, st := range locks[k] {
				es = append(es, edit{off(st.Pos()), off(st.End()), ""})
			}
			add("unlock-all", locks[k][0].Pos(), "remove every Lock/Unlock of "+k, es...)
		}
		ast.Inspect(fd.Body, func(n ast.Node) bool {
			switch s := n.(type) {
			case *ast.BinaryExpr:
				for _, alt := range swaps[s.Op] {
					if s.Op == token.ADD {
						if bl, ok := s.X.(*ast.BasicLit); ok && bl.Kind == token.STRING {
							continue
						}
						if bl, ok := s.Y.(*ast.BasicLit); ok && bl.Kind == token.STRING {
							continue
						}
					}
					add("binop", s.OpPos, short(text(s))+"  =>  "+alt, edit{off(s.OpPos), off(s.OpPos) + len(s.Op.String()), alt})
				}
			case *ast.IfStmt:
				add("negate-if", s.Cond.Pos(), "if !("+short(text(s.Cond))+")", edit{off(s.Cond.Pos()), off(s.Cond.End()), "!(" + text(s.Cond) + ")"})
				if s.Else == nil && s.Init == nil {
					add("drop-if-body", s.Pos(), "never take: if "+short(text(s.Cond)), edit{off(s.Cond.Pos()), off(s.Cond.End()), "false && (" + text(s.Cond) + ")"})
				}
			case *ast.ExprStmt:
				if _, ok := s.X.(*ast.CallExpr); ok {
					add("drop-call", s.Pos(), "remove: "+short(text(s)), edit{off(s.Pos()), off(s.End()), ""})
				}
			case *ast.DeferStmt:
				add("drop-defer", s.Pos(), "remove: "+short(text(s)), edit{off(s.Pos()), off(s.End()), ""})
			case *ast.GoStmt:
				add("go-to-sync", s.Pos(), "run synchronously: "+short(text(s)), edit{off(s.Pos()), off(s.Pos()) + 2, ""})
			case *ast.AssignStmt:
				if s.Tok == token.ASSIGN || s.Tok == token.ADD_ASSIGN || s.Tok == token.SUB_ASSIGN {
					add("drop-assign", s.Pos(), "remove: "+short(text(s)), edit{off(s.Pos()), off(s.End()), ""})
				}
			case *ast.IncDecStmt:
				add("drop-incdec", s.Pos(), "remove: "+short(text(s)), edit{off(s.Pos()), off(s.End()), ""})
			case *ast.BranchStmt:
				if s.Label == nil && s.Tok == token.BREAK {
					add("break-continue", s.Pos(), "break => continue", edit{off(s.Pos()), off(s.End()), "continue"})
				} else if s.Label == nil && s.Tok == token.CONTINUE {
					add("break-continue", s.Pos(), "continue => break", edit{off(s.Pos()), off(s.End()), "break"})
				}
			case *ast.BasicLit:
				if s.Kind == token.INT {
					if v, err := strconv.ParseInt(s.Value, 0, 64); err == nil {
						add("int-lit", s.Pos(), fmt.Sprintf("%s => %d", s.Value, v+1), edit{off(s.Pos()), off(s.End()), strconv.FormatInt(v+1, 10)})
						if v > 0 {
							add("int-lit", s.Pos(), fmt.Sprintf("%s => %d", s.Value, v-1), edit{off(s.Pos()), off(s.End()), strconv.FormatInt(v-1, 10)})
						}
					}
				}
			case *ast.ReturnStmt:
				for _, r := range s.Results {
					if id, ok := r.(*ast.Ident); ok && id.Name == "err" {
						add("return-nil-err", s.Pos(), short(text(s))+"  =>  err replaced by nil", edit{off(id.Pos()), off(id.End()), "nil"})
					}
				}
			}
			return true
		})
	}
	if len(os.Args) > 2 {
		i, _ := strconv.Atoi(os.Args[2])
		m := muts[i]
		sort.Slice(m.edits, func(a, b int) bool { return m.edits[a].from > m.edits[b].from })
		out := append([]byte{}, src...)
		for _, e := range m.edits {
			out = append(out[:e.from], append([]byte(e.text), out[e.to:]...)...)
		}
		os.Stdout.Write(out)
		return
	}
	json.NewEncoder(os.Stdout).Encode(muts)
}
