module verif/tools/mutgen

go 1.23
